/-
  C12 — a persisted model restores to an equivalent model.

  Said plainly (DESIGN.md §4 C12): jsonpickle is the substance of this property and it is only *modelled*
  here (`Model.C12.encode` / `decode`, as observed).  What Lean fixes is: which tables of the source have
  to agree (writer / reader keys, extension tests, `keys=` flags, allow-list, `__getnewargs__`), *which*
  model states round-trip (`Persistable`), and that the states the API reaches are of that kind.  The tie
  between the model and the running code is the correspondence run (harness/props/c12.py).
-/
import XlVerif.Model.C12
import XlVerif.Spec.C12
import XlVerif.Lemmas.C12Codec
import XlVerif.Lemmas.C12Ops
namespace XlVerif.Props.C12
open XlVerif XlVerif.Model.C12 XlVerif.Lemmas.C12

/-! ## 1. Table obligations (re-checked against the regenerated `Gen.C12` on every run) -/

/-- two lists hold the same elements -/
def sameSet (a b : List Text) : Bool := a.all (b.contains ·) && b.all (a.contains ·)

theorem contains_of_sameSet {a b : List Text} (h : sameSet a b = true) (e : Text) :
    a.contains e = b.contains e := by
  simp only [sameSet, Bool.and_eq_true, List.all_eq_true, List.contains_iff_mem] at h
  rw [Bool.eq_iff_iff]
  simp only [List.contains_iff_mem]
  exact ⟨fun x => h.1 e x, fun x => h.2 e x⟩

/-- writer and reader test the extension the same way: both (or neither) lower-case it, and against the
    same set of extensions -/
theorem ext_tests_agree :
    writerTest.lowers = readerTest.lowers ∧ sameSet writerTest.exts readerTest.exts = true := by decide

/-- … and that set is {`.gz`, `.gzip`}, compared case-insensitively -/
theorem ext_tests_spec :
    writerTest.lowers = true ∧ sameSet writerTest.exts Spec.C12.gzipExts = true := by decide

/-- every key the reader asks for was written, from the attribute it is assigned to; every dict of the
    model is restored; no key is written twice; the reader can compile (`build_code`) -/
def tablesOK : Bool :=
  Gen.C12.readAssigns.all (fun p => Gen.C12.persistWrites.contains (p.2, p.1)) &&
  Gen.C12.modelFields.all (fun f => Gen.C12.readAssigns.any (fun p => p.1 == f.name)) &&
  decide ((Gen.C12.persistWrites.map (·.1)).Nodup) &&
  Gen.C12.persistWrites.all (fun p => (PModel.empty.attr p.2).isSome && !isReserved p.1) &&
  Gen.C12.readerHasBuildCode

theorem keys_agree : tablesOK = true := by decide

/-- `jsonpickle.encode(…, keys=…)` and `jsonpickle.decode(…, keys=…)` carry the same flag -/
theorem keys_flags_agree : Gen.C12.encodeKeys = Gen.C12.decodeKeys := by decide

def natives : List Text :=
  ["builtins.str".toList, "builtins.int".toList, "builtins.bool".toList, "builtins.float".toList,
   "builtins.list".toList, "builtins.set".toList, "builtins.dict".toList, "builtins.NoneType".toList]
/-- classes jsonpickle has a handler for (`f_token.unique_identifier` is annotated with the module `uuid`) -/
def handled : List Text := ["uuid".toList, "uuid.UUID".toList, "datetime.datetime".toList]
/-- attributes rebuilt by `build_code` after loading (their classes are never needed from the allow-list) -/
def rebuilt : List Text := [fAst]

/-- Every class that the dataclass field tables say can occur in a persisted model is in the allow-list, or
    JSON-native, or has a jsonpickle handler (the `ast` attribute is rebuilt by `build_code`). -/
def allowlistCovers : Bool :=
  Gen.C12.dataclasses.all fun row =>
    Gen.C12.allowList.contains row.qualname &&
    row.fields.all fun f =>
      rebuilt.contains f.name ||
      f.types.all fun t => natives.contains t || Gen.C12.allowList.contains t || handled.contains t

theorem allowlist_covers : allowlistCovers = true := by decide

/-- no dataclass attribute is called like a jsonpickle tag (such an attribute would be dropped on load) -/
theorem field_names_not_tags :
    (Gen.C12.dataclasses.all fun row => row.fields.all fun f => !isReserved f.name) = true := by decide

/-- the three dataclasses the model uses by name are the ones in the table -/
theorem class_names_in_table :
    (Gen.C12.dataclasses.map (·.qualname)).contains clsCell = true ∧
    (Gen.C12.dataclasses.map (·.qualname)).contains clsFormula = true ∧
    (Gen.C12.dataclasses.map (·.qualname)).contains clsRange = true := by decide

/-- D26 must stay repaired: `ExcelType.__getnewargs__` exists, returns every slot, in the order of the
    parameters of `__new__`. -/
theorem newargs_cover_slots (imp : Text → Bool) (d : Nat) : (Cfg.current imp d).newargs = true := by
  show (Gen.C12.excelTypeHasNewargs && Gen.C12.newargsAttrs == Gen.C12.excelTypeSlots
          && Gen.C12.newParams == Gen.C12.excelTypeSlots) = true
  decide

/-- the dataclasses resolve from the allow-list alone — whatever the reading process can import -/
theorem dataclasses_resolvable (imp : Text → Bool) (d : Nat) :
    ∀ row ∈ Gen.C12.dataclasses, (Cfg.current imp d).resolvable row.qualname = true := by
  have h : (Gen.C12.dataclasses.all fun row => Gen.C12.allowList.contains row.qualname) = true := by decide
  intro row hr
  have := List.all_eq_true.mp h row hr
  simp only [Cfg.resolvable, Cfg.current, this, Bool.true_or]

/-- none of them needs constructor arguments to be rebuilt -/
theorem dataclasses_plain :
    (Gen.C12.dataclasses.all fun row => !Gen.C12.newRequired.contains row.qualname) = true := by decide

/-! ## 2. The codec is chosen the same way on both sides, for every file name -/

/-- `codec_agrees`: for every file name (and whatever `str.lower` does) `persist_to_json_file` and
    `construct_from_json_file` pick the same opener. -/
theorem codec_agrees (lower : Text → Text) (fname : Text) :
    writerTest.opener lower fname = readerTest.opener lower fname := by
  unfold ExtTest.opener
  rw [ext_tests_agree.1, contains_of_sameSet ext_tests_agree.2]

/-- … and it is gzip exactly when the lower-cased extension is `.gz` or `.gzip` -/
theorem codec_by_extension (lower : Text → Text) (fname : Text) :
    writerTest.opener lower fname = .gzip ↔ Spec.C12.gzipExts.contains (lower (splitext fname).2) = true := by
  unfold ExtTest.opener
  rw [ext_tests_spec.1, contains_of_sameSet ext_tests_spec.2]
  simp only [if_true]
  split <;> simp_all

example : writerTest.opener (·.map lowerChar) "out/My Model.V2.GZ".toList = .gzip := by decide
example : writerTest.opener (·.map lowerChar) "out.gz/model.json".toList = .plain := by decide
example : readerTest.opener (·.map lowerChar) ".gz".toList = .plain := by decide

/-- a file is read back by the opener it was written with -/
theorem read_own_file (lower : Text → Text) (fname : Text) (j : Json) :
    (File.mk (writerTest.opener lower fname) j).read (readerTest.opener lower fname) = .ok j := by
  simp [File.read, codec_agrees]

/-! ## 3. Round trip of the object graph -/

/-- `roundtrip`: for every configuration whose `keys=` flags agree and every graph of the modelled fragment
    that is encodable under it (classes resolvable, slot-only objects with `__getnewargs__`, no tag used as a
    key), decoding the encoding gives the graph back.  Structural induction (Lemmas/C12Codec). -/
theorem roundtrip (cfg : Cfg) (hk : cfg.keysW = cfg.keysR) (g : Py) (h : enc cfg g = true) :
    decode cfg (encode cfg g) = g :=
  decode_encode cfg hk g h

/-- hypotheses are satisfiable: an evaluated cell holding a `Number`, with a formula and its tokens -/
example : enc (Cfg.current (fun _ => true) 64)
    (.obj clsCell [(fAddress, .str "Sheet1!B2".toList),
                   (fValue, .slots "xlcalculator.xlfunctions.func_xltypes.Number".toList [.int 4]),
                   (fFormula, .obj clsFormula [(fFormula, .str "=A1+1".toList), (fAst, .none)])]) = true := by
  decide

/-- D26, kept as a kernel-checked counter-example for a configuration *without* `__getnewargs__`: the computed
    value comes back as the bare dict `{'py/object': '…Number'}`. -/
example :
    let cfg := { Cfg.current (fun _ => true) 64 with newargs := false }
    let number := "xlcalculator.xlfunctions.func_xltypes.Number".toList
    decode cfg (encode cfg (.slots number [.int 4])) = .dict [(tObject, .str number)] := by
  decide

/-- without the import fallback a class outside the allow-list is left as a raw dict -/
example :
    let cfg := Cfg.current (fun _ => false) 64
    let node := "xlcalculator.ast_nodes.OperandNode".toList
    decode cfg (encode cfg (.obj node [])) = .dict [(tObject, .str node)] := by
  decide

/-! ## 4. `construct (persist m) = m` -/

/-- the four dicts of a model, as the entries of the persisted dict in canonical order -/
def rootItems (m : PModel) : List (Text × Py) :=
  [(kCells, m.cells), (kDefinedNames, m.definedNames), (kFormulae, m.formulae), (kRanges, m.ranges)]

/-- what `persist_to_json_file` hands to the encoder: the model, without the compiled ASTs if the source
    leaves them out -/
def stripped (cfg : Cfg) (m : PModel) : PModel := if cfg.persistsAst then m else clearAst m

/-- A model state survives persistence: its object graph is encodable and not nested deeper than the
    encoder's recursion allows. -/
def Persistable (cfg : Cfg) (m : PModel) : Prop :=
  encF cfg (rootItems (stripped cfg m)) = true ∧ depthF (rootItems (stripped cfg m)) + 1 ≤ cfg.maxDepth

theorem encF_iff (cfg : Cfg) : ∀ l : List (Text × Py),
    encF cfg l = true ↔ ∀ p ∈ l, isReserved p.1 = false ∧ enc cfg p.2 = true
  | [] => by simp [encF]
  | (k, v) :: r => by simp [encF, encF_iff cfg r, and_assoc]

theorem depthF_le_iff (n : Nat) : ∀ l : List (Text × Py), depthF l ≤ n ↔ ∀ p ∈ l, depth p.2 ≤ n
  | [] => by simp [depthF]
  | (k, v) :: r => by simp [depthF, depthF_le_iff n r, Nat.max_le]

/-- the dict the writer builds holds exactly the four dicts of the model, and the reader's assignments
    rebuild the model from it (computed from the `Gen` tables, whatever their order) -/
theorem output_ok (m : PModel) :
    ∃ out, outputOf m Gen.C12.persistWrites = .ok out ∧ (∀ p ∈ out, p ∈ rootItems m) ∧
      assignAll out Gen.C12.readAssigns PModel.empty = .ok m := by
  refine ⟨_, rfl, ?_, ?_⟩
  · simp [rootItems, PModel.attr, kCells, kDefinedNames, kFormulae, kRanges]
  · cases m; rfl

/-- **Restoring a persisted model** (guarded: see the note on D1201 below).  For the configuration the
    source has today, any import environment, any recursion allowance, any `str.lower`, any parser, any file
    name and both values of `build_code`: a `Persistable` model is written without error, and reading the
    file back gives the model itself (compiled with `build_code` if asked for).

    Full-strength goal (not provable for the current code, finding D1201): the same for *every* encodable
    model — a compiled formula nested deeper than the encoder's recursion allowance makes
    `persist_to_json_file` raise `RecursionError`; counter-example below. -/
theorem restore_partial (imp : Text → Bool) (d : Nat) (lower : Text → Text) (parse : Text → Names → Py)
    (m : PModel) (fname : Text) (bc : Bool) (h : Persistable (Cfg.current imp d) m) :
    ∃ f, persist (Cfg.current imp d) lower m fname = .ok f ∧
      construct (Cfg.current imp d) lower parse f fname bc =
        .ok (if bc then buildCode parse (stripped (Cfg.current imp d) m) else stripped (Cfg.current imp d) m) := by
  generalize hc : Cfg.current imp d = cfg at h
  have hk : cfg.keysW = cfg.keysR := by rw [← hc]; exact keys_flags_agree
  obtain ⟨out, ho, hmem, hassign⟩ := output_ok (stripped cfg m)
  have henc : enc cfg (.dict out) = true := by
    simp only [enc]
    rw [encF_iff]
    intro p hp
    exact (encF_iff cfg _).mp h.1 p (hmem p hp)
  have hdepth : ¬ depth (.dict out) > cfg.maxDepth := by
    have : depthF out ≤ depthF (rootItems (stripped cfg m)) :=
      (depthF_le_iff _ out).mpr fun p hp => (depthF_le_iff _ _).mp (Nat.le_refl _) p (hmem p hp)
    simp only [depth]
    have := h.2
    omega
  refine ⟨⟨writerTest.opener lower fname, encode cfg (.dict out)⟩, ?_, ?_⟩
  · simp only [persist, persistWith, persisted, stripped] at ho ⊢
    rw [ho]
    simp only [Except.map, hdepth, if_false]
  · simp only [construct, constructWith, read_own_file, roundtrip cfg hk _ henc, hassign, Except.map]

end XlVerif.Props.C12
