/-
  C12 — a persisted model restores to an equivalent model.

  Said plainly (DESIGN.md §4 C12): jsonpickle is the substance of this property and it is only *modelled*
  here (`Model.C12.encode` / `decode`, as observed).  What Lean fixes is: which tables of the source have
  to agree (writer / reader keys, extension tests, allow-list, `__getnewargs__`), *which* model states
  round-trip (`Persistable`), and that the states the API reaches are of that kind.  The tie between the
  model and the running code is the correspondence run (harness/props/c12.py), which also asks the driver
  whether every real state it persists is `Persistable` in the model.

  Helper lemmas: Lemmas/C12Codec.lean (structural induction for `decode ∘ encode`), Lemmas/C12Ops.lean.
-/
import XlVerif.Model.C12
import XlVerif.Spec.C12
import XlVerif.Lemmas.C12Codec
import XlVerif.Lemmas.C12Ops
import XlVerif.Lemmas.C12Splitext
namespace XlVerif.Props.C12
open XlVerif XlVerif.Model.C12 XlVerif.Lemmas.C12

/-! ## 1. Table obligations (re-checked against the regenerated `Gen.C12` on every run; the tables are
  observations of what the running code does — probes and introspection —, not readings of its source) -/

/-- writer and reader test the extension the same way: both (or neither) lower-case it, and against the
    same set of extensions -/
theorem ext_tests_agree :
    writerTest.lowers = readerTest.lowers ∧ sameSet writerTest.exts readerTest.exts = true := by decide

/-- … and that set is {`.gz`, `.gzip`}, compared case-insensitively -/
theorem ext_tests_spec :
    writerTest.lowers = true ∧ sameSet writerTest.exts Spec.C12.gzipExts = true := by decide

/-- the model's codec choice (`os.path.splitext`, lower-casing, membership in the extension table) explains every
    raw observation of the probe: for each probed file name — extensions in every spelling, dots in directories,
    leading dots, trailing dots, blanks, non-ASCII — the model says "gzip" exactly when the file was written
    compressed, and exactly when the reader went through gzip -/
theorem codec_probe_agrees :
    (Gen.C12.codecProbe.all fun row =>
      (decide (writerTest.opener (·.map lowerChar) row.1 = .gzip) == row.2.1) &&
      (decide (readerTest.opener (·.map lowerChar) row.1 = .gzip) == row.2.2)) = true := by decide

/-- every key the reader asks for was written, from the attribute it is assigned to; every dict of the
    model is restored; no key is written twice or needs escaping; the reader can compile (`build_code`) -/
def tablesOK : Bool :=
  Gen.C12.readAssigns.all (fun p => Gen.C12.persistWrites.contains (p.2, p.1)) &&
  Gen.C12.modelFields.all (fun f => Gen.C12.readAssigns.any (fun p => p.1 == f.name)) &&
  decide ((Gen.C12.persistWrites.map (·.1)).Nodup) &&
  Gen.C12.persistWrites.all (fun p => (PModel.empty.attr p.2).isSome && okKey p.1) &&
  Gen.C12.readerHasBuildCode

/-- `keys_agree`: the keys written are the keys read -/
theorem keys_agree : tablesOK = true := by decide

def natives : List Text :=
  ["builtins.str".toList, "builtins.int".toList, "builtins.bool".toList, "builtins.float".toList,
   "builtins.list".toList, "builtins.set".toList, "builtins.dict".toList, "builtins.NoneType".toList]
/-- attributes rebuilt by `build_code` after loading (their classes are never needed from the allow-list) -/
def rebuilt : List Text := [fAst]

/-- Every class that the dataclass field tables say can occur in a persisted model is in the allow-list, or
    JSON-native, or has a jsonpickle handler (the `ast` attribute is rebuilt by `build_code`). -/
def allowlistCovers : Bool :=
  Gen.C12.dataclasses.all fun row =>
    Gen.C12.allowList.contains row.qualname &&
    row.fields.all fun f =>
      rebuilt.contains f.name ||
      f.types.all fun t => natives.contains t || Gen.C12.allowList.contains t || handled.contains t

theorem allowlist_covers : allowlistCovers = true := by decide

/-- no dataclass attribute is called like a jsonpickle tag (such an attribute would be dropped on load) -/
theorem field_names_not_tags :
    (Gen.C12.dataclasses.all fun row => row.fields.all fun f => okKey f.name) = true := by decide

/-- the three dataclasses the model uses by name are the ones in the table -/
theorem class_names_in_table :
    (Gen.C12.dataclasses.map (·.qualname)).contains clsCell = true ∧
    (Gen.C12.dataclasses.map (·.qualname)).contains clsFormula = true ∧
    (Gen.C12.dataclasses.map (·.qualname)).contains clsRange = true := by decide

/-- D26 must stay repaired: `ExcelType.__getnewargs__` exists, returns every slot, in the order of the
    parameters of `__new__`.  (Whether `__slots__` is spelt as a tuple or as a bare string makes no difference
    to Python, `copy` or jsonpickle — observed; the missing `__getnewargs__` was the defect.) -/
theorem newargs_cover_slots (imp : Text → Bool) (d : Nat) : (Cfg.current imp d).newargs = true := by
  show (Gen.C12.excelTypeHasNewargs && Gen.C12.newargsAttrs == Gen.C12.excelTypeSlots
          && Gen.C12.newParams == Gen.C12.excelTypeSlots) = true
  decide

/-- the dataclasses resolve from the allow-list alone — whatever the reading process can import -/
theorem dataclasses_resolvable (imp : Text → Bool) (d : Nat) :
    ∀ row ∈ Gen.C12.dataclasses, (Cfg.current imp d).resolvable row.qualname = true := by
  have h : (Gen.C12.dataclasses.all fun row => Gen.C12.allowList.contains row.qualname) = true := by decide
  intro row hr
  have := List.all_eq_true.mp h row hr
  simp only [Cfg.resolvable, Cfg.current, this, Bool.true_or]

/-- none of them needs constructor arguments to be rebuilt -/
theorem dataclasses_plain :
    (Gen.C12.dataclasses.all fun row => !Gen.C12.newRequired.contains row.qualname) = true := by decide

/-! ## 2. The codec is chosen the same way on both sides, for every file name -/

/-- `codec_agrees`: for every file name (and whatever `str.lower` does) `persist_to_json_file` and
    `construct_from_json_file` pick the same opener. -/
theorem codec_agrees (lower : Text → Text) (fname : Text) :
    writerTest.opener lower fname = readerTest.opener lower fname := by
  simp only [ExtTest.opener, ext_tests_agree.1, contains_of_sameSet ext_tests_agree.2]

/-- … and it is gzip exactly when the lower-cased extension is `.gz` or `.gzip` -/
theorem codec_by_extension (lower : Text → Text) (fname : Text) :
    writerTest.opener lower fname = .gzip ↔ Spec.C12.gzipExts.contains (lower (splitext fname).2) = true := by
  simp only [ExtTest.opener, ext_tests_spec.1, contains_of_sameSet ext_tests_spec.2, if_true]
  split <;> simp_all

/-- the model's `os.path.splitext` (two `rfind`s and the leading-dots loop) yields the reference reading of
    "file extension" — last dot of the last path component, unless only dots precede it — for every path -/
theorem splitext_refines (p : Text) : (splitext p).2 = Spec.C12.extOf p := splitext_ext_eq p

/-- **Chosen by the file extension**: writer and reader both open gzip exactly for the names the reference
    semantics calls gzip names (lower-cased extension `.gz` / `.gzip`), for every file name. -/
theorem codec_refines_spec (lower : Text → Text) (fname : Text) :
    (writerTest.opener lower fname = .gzip ↔ Spec.C12.isGzipName lower fname = true) ∧
    (readerTest.opener lower fname = .gzip ↔ Spec.C12.isGzipName lower fname = true) := by
  have h := codec_by_extension lower fname
  rw [splitext_refines] at h
  exact ⟨h, by rw [← codec_agrees]; exact h⟩

example : writerTest.opener (·.map lowerChar) "out/My Model.V2.GZ".toList = .gzip := by decide
example : writerTest.opener (·.map lowerChar) "out.gz/model.json".toList = .plain := by decide
example : readerTest.opener (·.map lowerChar) ".gz".toList = .plain := by decide
/-- the model's `os.path.splitext` and the reference reading of "extension" on some awkward names -/
example : ["a.b/c.d.GZ", ".gz", "..gz", "x..gz", "dir.gz/m", "m.", "a/.b.c", ""].all
    (fun (n : String) => (splitext n.toList).2 == Spec.C12.extOf n.toList) = true := by decide

/-- a file is read back by the opener it was written with -/
theorem read_own_file (lower : Text → Text) (fname : Text) (j : Json) :
    (File.mk (writerTest.opener lower fname) j).read (readerTest.opener lower fname) = .ok j := by
  simp [File.read, codec_agrees]

/-! ## 3. Round trip of the object graph -/

/-- `roundtrip`: for every configuration (whatever the allow-list, the import environment, the `keys=` flags)
    and every graph of the modelled fragment that is encodable under it (classes resolvable by the reader,
    slot-only objects with `__getnewargs__`, no key that is a tag or needs escaping), decoding the encoding
    gives the graph back.  Structural induction (Lemmas/C12Codec). -/
theorem roundtrip (cfg : Cfg) (g : Py) (h : enc cfg g = true) : decode cfg (encode cfg g) = g :=
  decode_encode cfg g h

/-- hypotheses are satisfiable: an evaluated cell holding a `Number`, with a formula object -/
example : enc (Cfg.current (fun _ => true) 64)
    (.obj clsCell [(fAddress, .str "Sheet1!B2".toList),
                   (fValue, .slots "xlcalculator.xlfunctions.func_xltypes.Number".toList [.int 4]),
                   (fFormula, .obj clsFormula [(fFormula, .str "=A1+1".toList), (fAst, .none)])]) = true := by
  decide

/-- D26, kept as a kernel-checked counter-example for a configuration *without* `__getnewargs__`: the computed
    value comes back as the bare dict `{'py/object': '…Number'}`. -/
example :
    let cfg := { Cfg.current (fun _ => true) 64 with newargs := false }
    let number := "xlcalculator.xlfunctions.func_xltypes.Number".toList
    decode cfg (encode cfg (.slots number [.int 4])) = .dict [(tObject, .str number)] := by
  rfl

/-- without the import fallback a class outside the allow-list is left as a raw dict -/
example :
    let cfg := Cfg.current (fun _ => false) 64
    let node := "xlcalculator.ast_nodes.OperandNode".toList
    decode cfg (encode cfg (.obj node [])) = .dict [(tObject, .str node)] := by
  rfl

/-! ## 4. `construct (persist m) = m` -/

/-- **Restoring a persisted model** (guarded: see the note on D1201).  For the configuration the source has
    today, any import environment, any recursion allowance, any `str.lower`, any parser, any file name and
    both values of `build_code`, and **whatever the receiving `Model` object `self` held before** (a fresh
    `Model()`, the persisting object after further changes, an object that loaded another file): a
    `Persistable` model is written without error, and reading the file back gives the model itself (compiled with `build_code` if asked for; `stripped` is the identity as long as
    the source persists the ASTs).

    Full-strength goal (not provable for the current code, finding D1201): the same for *every* encodable
    model — but a compiled formula nested deeper than the encoder's recursion allowance makes
    `persist_to_json_file` raise `RecursionError`; kernel-checked counter-example below. -/
theorem restore_partial (imp : Text → Bool) (d : Nat) (lower : Text → Text) (parse : Text → Names → Py)
    (self m : PModel) (fname : Text) (bc : Bool) (h : Persistable (Cfg.current imp d) m) :
    ∃ f, persist (Cfg.current imp d) lower m fname = .ok f ∧
      construct (Cfg.current imp d) lower parse self f fname bc =
        .ok (if bc then buildCode parse (stripped (Cfg.current imp d) m) else stripped (Cfg.current imp d) m) := by
  generalize Cfg.current imp d = cfg at h
  obtain ⟨out, ho, hmem, hassign⟩ := output_ok (stripped cfg m)
  have henc : enc cfg (.dict out) = true := by
    simp only [enc]
    rw [encF_iff]
    intro p hp
    exact (encF_iff cfg _).mp h.1 p (hmem p hp)
  have hdepth : ¬ depth (.dict out) > cfg.maxDepth := by
    have : depthF out ≤ depthF (rootItems (stripped cfg m)) :=
      (depthF_le_iff _ out).mpr fun p hp => (depthF_le_iff _ _).mp (Nat.le_refl _) p (hmem p hp)
    simp only [depth]
    have := h.2
    unfold Shallow at this
    omega
  refine ⟨⟨writerTest.opener lower fname, encode cfg (.dict out)⟩, ?_, ?_⟩
  · simp only [persist, persistWith, persisted, stripped] at ho ⊢
    rw [ho]
    simp only [Except.map, hdepth, if_false]
  · simp only [construct, constructWith, read_own_file, roundtrip cfg _ henc, hassign, Except.map]

/-- the hypothesis is satisfiable: a compiled, evaluated two-cell model -/
example : Persistable (Cfg.current (fun _ => true) 64)
    { PModel.empty with
      cells := .dict [
        ("Sheet1!A1".toList, .obj clsCell [(fAddress, .str "Sheet1!A1".toList), (fValue, .int 3), (fFormula, .none)]),
        ("Sheet1!B1".toList, .obj clsCell [(fAddress, .str "Sheet1!B1".toList),
          (fValue, .slots "xlcalculator.xlfunctions.func_xltypes.Number".toList [.int 4]),
          (fFormula, .obj clsFormula [(fFormula, .str "=A1+1".toList),
            (fAst, .obj "xlcalculator.ast_nodes.OperatorNode".toList [])])])],
      formulae := .dict [("Sheet1!B1".toList, .alias [kCells, "Sheet1!B1".toList, fFormula])] } := by
  refine ⟨?_, ?_⟩
  · show encF _ _ = true; decide
  · show _ + 1 ≤ _; decide

/-- D1201, kernel-checked: a compiled formula whose AST is nested deeper than the encoder's allowance is
    encodable, and still `persist_to_json_file` raises `RecursionError` — while the same model persists before
    compilation (here with an allowance of 8 levels; the real one is about 100). -/
def deepAst : Nat → Py
  | 0 => .none
  | n + 1 => .obj "xlcalculator.ast_nodes.OperatorNode".toList [("left".toList, deepAst n)]

def deepModel (ast : Py) : PModel :=
  { PModel.empty with
    cells := .dict [("Sheet1!B1".toList,
      .obj clsCell [(fAddress, .str "Sheet1!B1".toList), (fValue, .none),
                    (fFormula, .obj clsFormula [(fFormula, .str "=A1+A1+…".toList), (fAst, ast)])])] }

example :
    let cfg := Cfg.current (fun _ => true) 8
    encF cfg (rootItems (deepModel (deepAst 10))) = true ∧
    (persist cfg id (deepModel .none) "m.json".toList).toOption.isSome = true ∧
    -- as long as the source persists the ASTs the deep model cannot be written; once it leaves them out
    -- (proposed repair) it can
    (persist cfg id (deepModel (deepAst 10)) "m.json".toList).toOption.isNone = Gen.C12.persistsAst := by
  decide

/-! ## 5. What the restored model shows, and how it evaluates -/

/-- the statement's observable as the reference semantics sees it -/
def toSpec (o : Observable) :=
  (⟨o.cells, o.formulae, o.names, o.ranges⟩ : Spec.C12.Obs _ _ _ _)

/-- **Same cells, formulae, defined names and ranges.**  The restored model shows exactly what the original
    shows: every cell key with its address, value and formula text, every entry of `formulae`, every defined
    name with its kind and target, every range with its address matrix — in the same order — whether or not
    `build_code` was asked for. -/
theorem restore_observable_partial (imp : Text → Bool) (d : Nat) (lower : Text → Text)
    (parse : Text → Names → Py) (self m : PModel) (fname : Text) (bc : Bool)
    (h : Persistable (Cfg.current imp d) m) :
    ∃ f r, persist (Cfg.current imp d) lower m fname = .ok f ∧
      construct (Cfg.current imp d) lower parse self f fname bc = .ok r ∧
      observe r = observe m ∧ Spec.C12.Equivalent (toSpec (observe m)) (toSpec (observe r)) := by
  obtain ⟨f, hp, hc⟩ := restore_partial imp d lower parse self m fname bc h
  have hobs : observe (if bc then buildCode parse (stripped (Cfg.current imp d) m)
      else stripped (Cfg.current imp d) m) = observe m := by
    cases bc
    · simp only [Bool.false_eq_true, if_false, observe_stripped]
    · simp only [if_true, observe_buildCode, observe_stripped]
  refine ⟨f, _, hp, hc, hobs, ?_⟩
  rw [hobs]
  exact ⟨fun _ => rfl, fun _ => rfl, fun _ => rfl, fun _ => rfl⟩

/-- **After compilation the restored model is the compiled original** — whether the original was persisted
    before or after its own compilation, after evaluations or after overwrites: with `build_code=True` the
    reader returns `build_code` applied to the original (the parser being a function of formula text and
    defined names).  `Texted`: every formula object carries its text. -/
theorem restore_then_compile_partial (imp : Text → Bool) (d : Nat) (lower : Text → Text)
    (parse : Text → Names → Py) (self m : PModel) (fname : Text)
    (h : Persistable (Cfg.current imp d) m) (ht : Texted m = true) :
    ∃ f, persist (Cfg.current imp d) lower m fname = .ok f ∧
      construct (Cfg.current imp d) lower parse self f fname true = .ok (buildCode parse m) := by
  obtain ⟨f, hp, hc⟩ := restore_partial imp d lower parse self m fname true h
  exact ⟨f, hp, by rw [hc]; simp only [if_true, buildCode_stripped _ parse m ht]⟩

/-- a model that was compiled by the same parser comes back identical, ASTs included -/
theorem restore_compiled_partial (imp : Text → Bool) (d : Nat) (lower : Text → Text)
    (parse : Text → Names → Py) (self m0 : PModel) (fname : Text)
    (h : Persistable (Cfg.current imp d) (buildCode parse m0)) (ht : Texted (buildCode parse m0) = true) :
    ∃ f, persist (Cfg.current imp d) lower (buildCode parse m0) fname = .ok f ∧
      construct (Cfg.current imp d) lower parse self f fname true = .ok (buildCode parse m0) := by
  obtain ⟨f, hp, hc⟩ := restore_then_compile_partial imp d lower parse self (buildCode parse m0) fname h ht
  exact ⟨f, hp, by rw [hc, buildCode_idem]⟩

/-- **Every cell evaluates to the same value**: for any evaluation `ev` that reads the compiled model, the
    restored model and the compiled original agree on every cell (they are the same model).  That evaluation is
    a function of the model state is what the type of `ev` says; the evaluator itself is not modelled here —
    the correspondence run evaluates every cell of both models. -/
theorem evaluates_same_partial {Val : Type} (ev : PModel → Text → Val) (imp : Text → Bool) (d : Nat)
    (lower : Text → Text) (parse : Text → Names → Py) (self m : PModel) (fname : Text)
    (h : Persistable (Cfg.current imp d) m) (ht : Texted m = true) :
    ∃ f r, persist (Cfg.current imp d) lower m fname = .ok f ∧
      construct (Cfg.current imp d) lower parse self f fname true = .ok r ∧
      Spec.C12.EvaluatesSame ev (buildCode parse m) r := by
  obtain ⟨f, hp, hc⟩ := restore_then_compile_partial imp d lower parse self m fname h ht
  exact ⟨f, _, hp, hc, fun _ => rfl⟩

/-! ## 6. Reachability: the states the API produces are `Persistable`

  A history is: build (objects of the four dataclasses with native values) — `build_code` — `evaluate` (stores
  `ExcelType` / `ExcelError` / native values) — `set_cell_value` — persist / construct.  Each step keeps the
  model `Encodable` and `Shallow`, hence `Persistable`. -/

/-- an encodable, shallow model is `Persistable` (whether or not the source strips the ASTs) -/
theorem persistable_of (cfg : Cfg) (m : PModel) (he : Encodable cfg m) (hs : Shallow cfg m) :
    Persistable cfg m := by
  unfold Persistable stripped
  split
  · exact ⟨he, hs⟩
  · exact ⟨encodable_clearAst cfg m he, shallow_clearAst cfg m hs⟩

/-- **Freshly built objects survive, from the allow-list alone**: an instance of XLCell, XLFormula, XLRange
    or f_token is encodable as soon as its attribute values are — whatever the reading process can import. -/
theorem enc_mkInstance (imp : Text → Bool) (d : Nat) (row : Gen.C12.ClassRow)
    (hrow : row ∈ Gen.C12.dataclasses) (vals : Text → Py)
    (hv : ∀ f ∈ row.fields, enc (Cfg.current imp d) (vals f.name) = true) :
    enc (Cfg.current imp d) (mkInstance row vals) = true := by
  have h1 := dataclasses_resolvable imp d row hrow
  have h2 := List.all_eq_true.mp dataclasses_plain row hrow
  have h3 := List.all_eq_true.mp field_names_not_tags row hrow
  simp only [mkInstance, enc, h1, Bool.true_and, Bool.and_eq_true]
  refine ⟨by simpa [Cfg.current] using h2, ?_⟩
  rw [encF_iff]
  intro p hp
  obtain ⟨f, hf, rfl⟩ := List.mem_map.mp hp
  exact ⟨by simpa using List.all_eq_true.mp h3 f hf, hv f hf⟩

/-- **Evaluated values survive** (D26 repaired): every value an evaluation stores is encodable under the
    current source — this is where `newargs_cover_slots` is needed; the value classes are not in the
    allow-list, the reading process has to be able to import them. -/
theorem enc_evaluated (imp : Text → Bool) (d : Nat) (hi : ImportsValueClasses imp) (v : Py)
    (h : evaluatedVal v = true) : enc (Cfg.current imp d) v = true := by
  have hn := newargs_cover_slots imp d
  cases v with
  | slots c args =>
    match args, h with
    | [p], h =>
      simp only [evaluatedVal, Bool.and_eq_true] at h
      simp only [enc, encL, hn, enc_native imp d hi p h.2, Bool.and_true, Bool.true_and]
      simp only [Cfg.resolvable, Cfg.current, Bool.or_eq_true]
      exact Or.inr (hi c (by simp only [h.1, Bool.true_or]))
    | [], h => simp [evaluatedVal, nativeVal] at h
    | _ :: _ :: _, h => simp [evaluatedVal, nativeVal] at h
  | reduce c args st =>
    simp only [evaluatedVal, Bool.and_eq_true] at h
    simp only [enc, encL_native imp d hi args h.1.2, encF_native imp d hi st h.2, Bool.and_true]
    simp only [Cfg.resolvable, Cfg.current, Bool.or_eq_true]
    exact Or.inr (hi c (by simp only [h.1.1, Bool.true_or, Bool.or_true]))
  | _ => exact enc_native imp d hi _ (by simpa [evaluatedVal] using h)

example : evaluatedVal (.slots "xlcalculator.xlfunctions.func_xltypes.Number".toList [.float (.fin (11/2))]) = true
    ∧ evaluatedVal (.reduce "xlcalculator.xlfunctions.xlerrors.DivZeroExcelError".toList [.none]
        [("value".toList, .str "#DIV/0!".toList), ("info".toList, .none)]) = true
    ∧ ImportsValueClasses (fun _ => true) := by
  refine ⟨by decide, by decide, fun _ _ => rfl⟩

/-- `build_code` keeps a model encodable, provided the parser's trees are (their classes must be importable:
    the AST node classes are not in the allow-list) -/
theorem encodable_buildCode (cfg : Cfg) (parse : Text → Names → Py)
    (hp : ∀ t n, enc cfg (parse t n) = true) (m : PModel) (h : Encodable cfg m) :
    Encodable cfg (buildCode parse m) := by
  rw [encodable_iff] at h ⊢
  rw [buildCode_eq]
  refine encModel_mapCells cfg _ (fun c hc => ?_) m h
  unfold compileCell
  split
  · exact enc_withAst cfg _ (hp _ _) c hc
  · exact hc

/-- storing an evaluated value keeps the model `Persistable` when the value is encodable and shallow -/
theorem persistable_storeEvaluated (cfg : Cfg) (addr : Text) (v : Py) (hv : enc cfg v = true)
    (hd : depth v + 3 ≤ cfg.maxDepth) (m : PModel) (he : Encodable cfg m) (hs : Shallow cfg m) :
    Persistable cfg (storeEvaluated addr v m) := by
  refine persistable_of cfg _ (encodable_storeAt cfg addr _ ?_ m he) (shallow_storeAt cfg addr _ ?_ m hs)
  · simp [encF, enc, hv, field_names_ok.2.2.1, field_names_ok.2.2.2.1]
  · simp only [depthF, depth]; omega

/-- `set_cell_value` keeps the model `Persistable` when the new value (and, for a new address, the new cell
    object) is encodable and shallow, and the address is not a jsonpickle tag -/
theorem persistable_setCellValue (cfg : Cfg) (addr : Text) (v fresh : Py) (ha : okKey addr = true)
    (hv : enc cfg v = true) (hf : enc cfg fresh = true) (hd : depth v + 3 ≤ cfg.maxDepth)
    (hdf : depth fresh + 2 ≤ cfg.maxDepth) (m : PModel) (he : Encodable cfg m) (hs : Shallow cfg m) :
    Persistable cfg (setCellValue addr v fresh m) := by
  obtain ⟨cells, dn, fo, ra⟩ := m
  cases cells with
  | dict kvs =>
    simp only [setCellValue]
    split
    · refine persistable_of cfg _ (encodable_storeAt cfg addr _ ?_ _ he) (shallow_storeAt cfg addr _ ?_ _ hs)
      · simp [encF, hv, field_names_ok.2.2.1]
      · simp only [depthF]; omega
    · refine persistable_of cfg _ ?_ ?_
      · rw [encodable_iff] at he ⊢
        simp only [encModel, enc, Bool.and_eq_true] at he ⊢
        refine ⟨⟨⟨encF_append cfg kvs _ he.1.1.1 ?_, he.1.1.2⟩, he.1.2⟩, he.2⟩
        simp [encF, ha, hf]
      · simp only [Shallow, rootItems, depthF, depth, depthF_append] at hs ⊢
        omega
  | _ => exact persistable_of cfg _ he hs

/-- the restored model can be persisted again -/
theorem restored_persistable_partial (imp : Text → Bool) (d : Nat) (m : PModel)
    (h : Persistable (Cfg.current imp d) m) :
    Persistable (Cfg.current imp d) (stripped (Cfg.current imp d) m) := by
  generalize Cfg.current imp d = cfg at h ⊢
  unfold Persistable at h ⊢
  cases hp : cfg.persistsAst with
  | true => simp only [stripped, hp, if_true] at h ⊢; exact h
  | false =>
    simp only [stripped, hp, Bool.false_eq_true, if_false] at h ⊢
    exact ⟨encodable_clearAst cfg _ h.1, shallow_clearAst cfg _ h.2⟩

end XlVerif.Props.C12
