/-
  C13 — an extracted sub-model computes the same values as the full model.

  Model: `Model.C13.extract` (statement-by-statement mirror of `ModelCompiler.extract` as it is after the
  repairs of D27, D1301 and D1302), `buildCode` (`Model.build_code`), the evaluator model `Model.Evaluator`
  (`fresh` = reference evaluation).
  Spec:  `Spec.C13.Closure succ roots`, instantiated with the dependency graph `deps m` of the model.

  Proved for every well-formed model, focus list, function semantics `sem`, fuel and sequence of
  `set_cell_value`:
    * `fresh_reads_closure`        evaluation of `f` reads only `Closure {f}`;
    * `worklist_terminates`        the `while terms_to_copy` loop ends within `workFuel` iterations;
    * `extract_contains_closure`   the extracted model holds every cell and range of the closure of the focus,
                                   with identical contents;
    * `extract_sound`              every focused address evaluates in the extract as in the original, also after
                                   the same `set_cell_value`s on both;
    * `extract_minimal`            nothing outside the closure is copied;
    * `extract_copies`, `extract_formulae_empty`, `extract_raises_only_for_dangling_name`, `extract_pure`.
  The hypotheses are hygiene of compiled workbooks only (`WF`, decidable: `wfb`) and "no focused item is a
  range key"; each has a non-vacuity `example` below.
-/
import XlVerif.Lemmas.C13Minimal
namespace XlVerif.Props.C13
open XlVerif XlVerif.Model.Evaluator XlVerif.Model.C13 XlVerif.Spec.C13 XlVerif.Lemmas.C13

/-! ### evaluation reads only the closure -/

/-- If `m₂` agrees with `m₁` on the dependency closure of `f` (same name resolution, same constants, same
    formula trees and formula texts, same range matrices; cached values are irrelevant), the reference
    evaluation of `f` gives the same result on both — for every function semantics and every fuel. -/
theorem fresh_reads_closure (m₁ m₂ : MState) (f : Addr)
    (hag : Agree (Closure (stDeps m₁) [f]) m₁ m₂) (sem : Sem) (fuel : Nat) :
    fresh sem fuel m₁ f = fresh sem fuel m₂ f :=
  fresh_agree (closed_stDeps m₁ [f]) hag sem fuel f (Closure.root (List.mem_singleton.mpr rfl))

/-- the same for any set closed under the dependencies, and after the same `set_cell_value`s -/
theorem fresh_reads_closed_after_sets {R : Addr → Prop} (m₁ m₂ : MState) (hcl : Closed R m₁) (hag : Agree R m₁ m₂)
    (sets : List (Addr × V)) (hsets : ∀ s ∈ sets, m₁.resolve s.1 = m₂.resolve s.1)
    (sem : Sem) (fuel : Nat) (f : Addr) (hf : R f) :
    fresh sem fuel (applySets sets m₁) f = fresh sem fuel (applySets sets m₂) f := by
  obtain ⟨h1, h2⟩ := agree_closed_applySets sets m₁ m₂ hcl hag hsets
  exact fresh_agree h1 h2 sem fuel f hf

/-- a model agrees with itself on everything (the hypothesis of `fresh_reads_closure` is satisfiable) -/
example (m : MState) (R : Addr → Prop) : Agree R m m :=
  ⟨fun _ _ => rfl, fun a _ => by cases h : m.cell? a <;> simp [CellAgree], fun _ _ => rfl⟩

/-! ### the worklist terminates -/

/-- `while terms_to_copy:` ends: after `workFuel` iterations the list is empty, whatever copy of part of the
    model has been built before and whatever is on the list -/
theorem worklist_terminates (m x : XModel) (todo : List Addr) (hwf : WF m) (hs : Sub x m) :
    (worklist m (workFuel m todo) x todo).2 = [] :=
  worklist_finishes hwf _ x todo hs (mu_le_workFuel m x todo)

example (m : XModel) : Sub XModel.empty m := sub_empty m

/-! ### what the extracted model contains -/

/-- everything in the extracted model is an identical (deep) copy of an entry of the original -/
theorem extract_copies (m x : XModel) (focus : List Addr) (hwf : WF m) (hx : extract m focus = .ok x) :
    (∀ a c, x.st.cell? a = some c → m.st.cell? a = some c)
    ∧ (∀ k r, x.st.range? k = some r → m.st.range? k = some r)
    ∧ (∀ n t, assoc n x.st.names = some t → assoc n m.st.names = some t)
    ∧ (∀ n rn, assoc n x.rnames = some rn → assoc n m.rnames = some rn) := by
  obtain ⟨_, _, _, _, hinv, _⟩ := extract_ok_inv hwf hx
  exact ⟨hinv.sub.cell, hinv.sub.range, hinv.sub.name, hinv.sub.rname⟩

/-- `formulae` of the extracted model is not filled -/
theorem extract_formulae_empty (m x : XModel) (focus : List Addr) (hwf : WF m)
    (hx : extract m focus = .ok x) : x.formulae = [] := by
  obtain ⟨_, _, _, _, _, h⟩ := extract_ok_inv hwf hx
  exact h

/-- the extracted model contains the closure of the focus, with identical contents -/
theorem extract_contains_closure (m x : XModel) (focus : List Addr) (hwf : WF m)
    (hfocus : ∀ a ∈ focus, m.st.range? a = none) (hx : extract m focus = .ok x) :
    ∀ a, Closure (deps m) focus a →
      (∀ c, m.st.cell? a = some c → x.st.cell? a = some c)
      ∧ (∀ r, m.st.range? a = some r → x.st.range? a = some r) := by
  obtain ⟨x0, _, hfd, hle, hinv, _⟩ := extract_ok_inv hwf hx
  intro a ha
  have := (closure_handled hwf hfocus hfd hle hinv a ha).1
  exact ⟨this.2, this.1⟩

/-- every focused address evaluates in the extracted model as in the original, also after the same
    sequence of `set_cell_value` on both (addressed alike in both models) -/
theorem extract_sound (m x : XModel) (focus : List Addr) (hwf : WF m)
    (hfocus : ∀ a ∈ focus, m.st.range? a = none) (hx : extract m focus = .ok x)
    (sets : List (Addr × V)) (hsets : ∀ s ∈ sets, m.st.resolve s.1 = x.st.resolve s.1)
    (sem : Sem) (fuel : Nat) (f : Addr) (hf : f ∈ focus) :
    fresh sem fuel (applySets sets (buildCode x)) f = fresh sem fuel (applySets sets (buildCode m)) f :=
  (fresh_reads_closed_after_sets (buildCode m) (buildCode x) (closed_closure m focus)
    (extract_agree hwf hfocus hx) sets hsets sem fuel f (Closure.root hf)).symm

/-- every cell and every range of the extracted model lies in the closure of the focus -/
theorem extract_minimal (m x : XModel) (focus : List Addr) (hwf : WF m) (hx : extract m focus = .ok x) :
    (∀ a c, x.st.cell? a = some c → Closure (deps m) focus a)
    ∧ (∀ k r, x.st.range? k = some r → Closure (deps m) focus k) :=
  extract_minimal_aux hwf hx

/-- a `set_cell_value` by the address of a cell that is not a defined name is addressed alike in both -/
theorem sets_ok_of_not_name (m x : XModel) (focus : List Addr) (hwf : WF m)
    (hx : extract m focus = .ok x) (a : Addr) (ha : m.isName a = false) :
    m.st.resolve a = x.st.resolve a := by
  obtain ⟨_, _, _, _, hinv, _⟩ := extract_ok_inv hwf hx
  have h1 := (isName_false ha).1
  have h2 := (isName_false (isName_false_of_sub hinv.sub ha)).1
  simp only [MState.resolve, h1, h2]

/-- `extract` raises (KeyError) only for a focused defined name bound to a cell that is not in `model.cells`
    — which `build_defined_names` never creates -/
theorem extract_raises_only_for_dangling_name (m : XModel) (focus : List Addr)
    (hnames : ∀ n t, assoc n m.st.names = some t → m.st.cell? t ≠ none) :
    ∃ x, extract m focus = .ok x := by
  have hstep : ∀ x a, ∃ x', focusStep m x a = .ok x' := by
    intro x a
    unfold focusStep
    cases m.st.cell? a with
    | some c => exact ⟨_, rfl⟩
    | none =>
      simp only
      cases hn : assoc a m.st.names with
      | some t =>
        simp only [copyCell]
        cases hc : m.st.cell? t with
        | none => exact absurd hc (hnames a t hn)
        | some c => exact ⟨_, rfl⟩
      | none =>
        simp only
        cases assoc a m.rnames with
        | some rn => exact ⟨_, rfl⟩
        | none => exact ⟨_, rfl⟩
  have hphase : ∀ (l : List Addr) x, ∃ x', focusPhase m x l = .ok x' := by
    intro l
    induction l with
    | nil => intro x; exact ⟨x, rfl⟩
    | cons a rest ih =>
      intro x
      obtain ⟨x1, h1⟩ := hstep x a
      obtain ⟨x2, h2⟩ := ih x1
      exact ⟨x2, by simp only [focusPhase, h1, h2]⟩
  obtain ⟨x0, h0⟩ := hphase focus XModel.empty
  exact ⟨(worklist m (workFuel m (initTerms x0).reverse) x0 (initTerms x0).reverse).1, by
    simp only [extract, h0]⟩

/-- extraction is a function of the model: the original is returned as it was (aliasing between the two
    object graphs is not modelled; the correspondence check compares the original before and after the
    extraction and after changes of the extract) -/
theorem extract_pure (m : XModel) (focus : List Addr) : (runExtract m focus).1 = m := rfl

/-! ### non-vacuity -/

def A1 : Addr := "S!A1".toList
def A2 : Addr := "S!A2".toList
def A3 : Addr := "S!A3".toList
def B1 : Addr := "S!B1".toList
def B2 : Addr := "S!B2".toList
def B3 : Addr := "S!B3".toList
def C1 : Addr := "T!C1".toList
def RK : Addr := "S!A1:A3".toList
def NM : Addr := "nm".toList
def N2 : Addr := "n2".toList
def RN : Addr := "rn".toList

def num (n : Int) : V := .s (.num (.int n))

/-- `A1 = 5, A2 = 7` (`A3` is an empty cell of the sheet), `B1 = f(rn, A1)`, `B2 = f(nm, 1)`, `B3 = f(A1:A3)`,
    `C1 = f(B2)`; names `nm → A2`, `n2 → C1`; range name `rn → A1:A3` -/
def ex : XModel where
  st := {
    cells := [(A1, { value := num 5, formula := none }), (A2, { value := num 7, formula := none }),
              (B1, { value := .s .blank, formula := some (.app 4 [.rng RN, .ref A1]) }),
              (B2, { value := .s .blank, formula := some (.app 0 [.ref NM, .lit (num 1)]) }),
              (B3, { value := .s .blank, formula := some (.app 4 [.rng RK]) }),
              (C1, { value := .s .blank, formula := some (.app 7 [.ref B2]) })],
    ranges := [(RK, { cells := [[A1], [A2], [A3]] })],
    names := [(NM, A2), (N2, C1)] }
  rnames := [(RN, { key := RK, cells := [[A1], [A2], [A3]] })]

/-- the hypotheses of `extract_sound` / `extract_contains_closure` / `extract_minimal` hold for `ex` … -/
example : WF ex := wf_of_wfb (by decide)
example : ∀ a ∈ [C1, RN, B1], ex.st.range? a = none := by decide
example : ∀ n t, assoc n ex.st.names = some t → ex.st.cell? t ≠ none := by
  intro n t h
  have all : ∀ p ∈ ex.st.names, ex.st.cell? p.2 ≠ none := by decide
  exact all (n, t) (assoc_mem h)

def firstArg : Sem where
  app := fun _ vs => match vs with | v :: _ => .val v | [] => .val (.s .blank)
  truth := fun _ => some true

/-- … the extraction of `[n2]` follows the defined name `nm` used by `B2` (regression of D1301): it copies
    `C1, B2, A2` and the name, and `n2` evaluates to 7 in the extract -/
example : (extract ex [N2]).toOption.map (fun x => (x.st.cells.map (·.1), x.st.ranges.map (·.1),
    x.st.names, x.formulae, fresh firstArg 5 (buildCode x) N2))
    = some ([C1, B2, A2], [], [(N2, C1), (NM, A2)], [], .val (num 7)) := by rfl

/-- … a formula over a named range copies the name, the range and its members; a focused named range over
    an empty cell copies the members that are cells (regression of D1302) -/
example : (extract ex [B1]).toOption.map (fun x => (x.st.cells.map (·.1), x.st.ranges.map (·.1),
    x.rnames.map (·.1))) = some ([B1, A1, A2], [RK], [RN]) := by rfl
example : (extract ex [RN]).toOption.map (fun x => (x.st.cells.map (·.1), x.st.ranges.map (·.1),
    x.rnames.map (·.1))) = some ([A1, A2], [], [RN]) := by rfl

end XlVerif.Props.C13
