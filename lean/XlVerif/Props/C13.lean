/-
  C13 — an extracted sub-model computes the same values as the full model.

  Model: `Model.C13.extract` (statement-by-statement mirror of `ModelCompiler.extract`), `buildCode`
  (`Model.build_code`), the evaluator model `Model.Evaluator` (`fresh` = reference evaluation).
  Spec:  `Spec.C13.Closure succ roots`, instantiated with the dependency graph `deps m` of the model.

  Proved for every model, focus list, function semantics `sem`, fuel and sequence of `set_cell_value`:
    * `fresh_reads_closure`            evaluation of `f` reads only `Closure {f}`;
    * `worklist_terminates`            the `while terms_to_copy` loop ends within `workFuel` iterations;
    * `extract_contains_closure_partial`, `extract_sound_partial`   under the guard `NameFree` (finding D1301:
      a formula that mentions a DEFINED NAME is not followed by `extract`; counter-example below);
    * `extract_raises_D1302`           focusing a name bound to a range with a member cell that is not in
                                       `model.cells` raises KeyError (finding D1302, counter-example);
    * `extract_minimal_partial`        nothing outside the closure is copied (same guard);
    * `extract_pure`, `extract_formulae_empty`, `extract_copies`;
    * `extractRepaired_sound`, `extractRepaired_contains_closure`, `worklistRepaired_terminates`: with the
      proposed repair of D1301 (proposed_fixes/C13-D1301.diff, modelled as `extractR`) the property holds at
      full strength, without the guard.
-/
import XlVerif.Lemmas.C13Minimal
import XlVerif.Lemmas.C13Repair
namespace XlVerif.Props.C13
open XlVerif XlVerif.Model.Evaluator XlVerif.Model.C13 XlVerif.Spec.C13 XlVerif.Lemmas.C13

/-! ### evaluation reads only the closure -/

/-- If `m₂` agrees with `m₁` on the dependency closure of `f` (same name resolution, same constants, same
    formula trees and formula texts, same range matrices; cached values are irrelevant), the reference
    evaluation of `f` gives the same result on both — for every function semantics and every fuel. -/
theorem fresh_reads_closure (m₁ m₂ : MState) (f : Addr)
    (hag : Agree (Closure (stDeps m₁) [f]) m₁ m₂) (sem : Sem) (fuel : Nat) :
    fresh sem fuel m₁ f = fresh sem fuel m₂ f :=
  fresh_agree (closed_stDeps m₁ [f]) hag sem fuel f (Closure.root (List.mem_singleton.mpr rfl))

/-- the same for any set closed under the dependencies, and after the same `set_cell_value`s -/
theorem fresh_reads_closed_after_sets {R : Addr → Prop} (m₁ m₂ : MState) (hcl : Closed R m₁) (hag : Agree R m₁ m₂)
    (sets : List (Addr × V)) (hsets : ∀ s ∈ sets, m₁.resolve s.1 = m₂.resolve s.1)
    (sem : Sem) (fuel : Nat) (f : Addr) (hf : R f) :
    fresh sem fuel (applySets sets m₁) f = fresh sem fuel (applySets sets m₂) f := by
  obtain ⟨h1, h2⟩ := agree_closed_applySets sets m₁ m₂ hcl hag hsets
  exact fresh_agree h1 h2 sem fuel f hf

/-- a model agrees with itself on everything (the hypothesis of `fresh_reads_closure` is satisfiable) -/
example (m : MState) (R : Addr → Prop) : Agree R m m :=
  ⟨fun _ _ => rfl, fun a _ => by cases h : m.cell? a <;> simp [CellAgree], fun _ _ => rfl⟩

/-! ### the worklist terminates -/

/-- `while terms_to_copy:` ends: after `workFuel` iterations the list is empty, whatever has been copied
    before and whatever is on the list -/
theorem worklist_terminates (m x : XModel) (todo : List Addr) :
    (worklist m (workFuel m todo) x todo).2 = [] :=
  worklist_finishes m _ x todo (mu_le_workFuel m x todo)

/-! ### what the extracted model contains -/

/-- everything in the extracted model is an identical (deep) copy of an entry of the original; `formulae`
    is not filled -/
theorem extract_copies (m x : XModel) (focus : List Addr) (hrc : RangeNotCell m) (hx : extract m focus = .ok x) :
    (∀ a c, x.st.cell? a = some c → m.st.cell? a = some c)
    ∧ (∀ k r, x.st.range? k = some r → m.st.range? k = some r)
    ∧ (∀ n t, assoc n x.st.names = some t → assoc n m.st.names = some t)
    ∧ (∀ n rn, assoc n x.rnames = some rn → assoc n m.rnames = some rn) := by
  obtain ⟨_, _, _, _, hinv, _, _, _⟩ := extract_ok_inv hrc hx
  exact ⟨hinv.sub.cell, hinv.sub.range, hinv.sub.name, hinv.sub.rname⟩

theorem extract_formulae_empty (m x : XModel) (focus : List Addr) (hrc : RangeNotCell m)
    (hx : extract m focus = .ok x) : x.formulae = [] := by
  obtain ⟨_, _, _, _, _, _, _, h⟩ := extract_ok_inv hrc hx
  exact h

/-
  Full-strength statements (the property as stated), for every well-formed model `m`:
      extract m focus = .ok x →
        ∀ a, Closure (deps m) focus a → (the cell / range stored at `a` in `m` is stored at `a` in `x`)
      ∀ f ∈ focus, fresh sem fuel (applySets sets (buildCode x)) f = fresh sem fuel (applySets sets (buildCode m)) f
  Both are FALSE for the model of the current code: `extract` follows `formula.terms`, and the term of a
  defined name (`Sheet1!myname`) is neither a key of `model.cells` nor of `model.ranges`, so the cell / range
  the name is bound to is not copied and the name itself is not copied (finding D1301; kernel-checked
  counter-example `extract_sound_fails_D1301` below).  Proved: the statements under the guard `NameFree`
  (no formula in the closure mentions a defined name, no range in the closure has a name as a member).
-/

/-- the extracted model contains the closure of the focus, with identical contents -/
theorem extract_contains_closure_partial (m x : XModel) (focus : List Addr) (hwf : WF m)
    (hfocus : ∀ a ∈ focus, m.st.range? a = none) (hnf : NameFree m (Closure (deps m) focus))
    (hx : extract m focus = .ok x) :
    ∀ a, Closure (deps m) focus a →
      (∀ c, m.st.cell? a = some c → x.st.cell? a = some c)
      ∧ (∀ r, m.st.range? a = some r → x.st.range? a = some r) := by
  obtain ⟨x0, _, hfd, hle, hinv, _, _, _⟩ := extract_ok_inv hwf.rangeNotCell hx
  intro a ha
  have := (closure_handled hwf hfocus hnf hfd hle hinv a ha).1
  exact ⟨this.2, this.1⟩

/-- every focused address evaluates in the extracted model as in the original, also after the same
    sequence of `set_cell_value` on both (addressed alike in both models) -/
theorem extract_sound_partial (m x : XModel) (focus : List Addr) (hwf : WF m)
    (hfocus : ∀ a ∈ focus, m.st.range? a = none) (hnf : NameFree m (Closure (deps m) focus))
    (hx : extract m focus = .ok x)
    (sets : List (Addr × V)) (hsets : ∀ s ∈ sets, m.st.resolve s.1 = x.st.resolve s.1)
    (sem : Sem) (fuel : Nat) (f : Addr) (hf : f ∈ focus) :
    fresh sem fuel (applySets sets (buildCode x)) f = fresh sem fuel (applySets sets (buildCode m)) f :=
  (fresh_reads_closed_after_sets (buildCode m) (buildCode x) (closed_closure m focus)
    (extract_agree hwf hfocus hnf hx) sets hsets sem fuel f (Closure.root hf)).symm

/-- every cell and every range of the extracted model lies in the closure of the focus (nothing else is
    copied) — same guard -/
theorem extract_minimal_partial (m x : XModel) (focus : List Addr)
    (hnf : NameFree m (Closure (deps m) focus)) (hx : extract m focus = .ok x) :
    (∀ a c, x.st.cell? a = some c → Closure (deps m) focus a)
    ∧ (∀ k r, x.st.range? k = some r → Closure (deps m) focus k) :=
  extract_minimal hnf hx

/-! ### the proposed repair of D1301 makes the property hold at full strength

  `extractR` = `extract` with the `else:` branch of proposed_fixes/C13-D1301.diff (a term that is a defined
  name copies the name and pushes what it is bound to).  No `NameFree` guard; the hypotheses are hygiene of
  compiled workbooks only (`WF`, a named range is registered under its key, range members are not names). -/

theorem worklistRepaired_terminates (m x : XModel) (todo : List Addr) (hwf : WF m) (hreg : RNamesRegistered m)
    (hs : Sub x m) : (worklistR m (workFuelR m todo) x todo).2 = [] :=
  worklistR_finishes hwf hreg _ x todo hs (muR_le_workFuelR m x todo)

theorem extractRepaired_contains_closure (m x : XModel) (focus : List Addr) (hwf : WF m)
    (hreg : RNamesRegistered m) (hmem : RangeMembersNotNames m)
    (hfocus : ∀ a ∈ focus, m.st.range? a = none) (hx : extractR m focus = .ok x) :
    ∀ a, Closure (deps m) focus a →
      (∀ c, m.st.cell? a = some c → x.st.cell? a = some c)
      ∧ (∀ r, m.st.range? a = some r → x.st.range? a = some r) := by
  obtain ⟨x0, _, hfd, hle, hinv, _⟩ := extractR_ok_inv hwf hreg hx
  intro a ha
  have := (closure_handledR hwf hreg hmem hfocus hfd hle hinv a ha).1
  exact ⟨this.2, this.1⟩

theorem extractRepaired_sound (m x : XModel) (focus : List Addr) (hwf : WF m)
    (hreg : RNamesRegistered m) (hmem : RangeMembersNotNames m)
    (hfocus : ∀ a ∈ focus, m.st.range? a = none) (hx : extractR m focus = .ok x)
    (sets : List (Addr × V)) (hsets : ∀ s ∈ sets, m.st.resolve s.1 = x.st.resolve s.1)
    (sem : Sem) (fuel : Nat) (f : Addr) (hf : f ∈ focus) :
    fresh sem fuel (applySets sets (buildCode x)) f = fresh sem fuel (applySets sets (buildCode m)) f :=
  (fresh_reads_closed_after_sets (buildCode m) (buildCode x) (closed_closure m focus)
    (extractR_agree hwf hreg hmem hfocus hx) sets hsets sem fuel f (Closure.root hf)).symm

/-- a `set_cell_value` by cell address of a cell that is not a defined name is addressed alike in both -/
theorem sets_ok_of_not_name (m x : XModel) (focus : List Addr) (hrc : RangeNotCell m)
    (hx : extract m focus = .ok x) (a : Addr) (ha : m.isName a = false) :
    m.st.resolve a = x.st.resolve a := by
  obtain ⟨_, _, _, _, hinv, _, _, _⟩ := extract_ok_inv hrc hx
  have h1 := (isName_false ha).1
  have h2 := (isName_false (isName_false_of_sub hinv.sub ha)).1
  simp only [MState.resolve, h1, h2]

/-- extraction is a function of the model: the original is returned as it was (aliasing between the two
    object graphs is not modelled; the correspondence check compares the original before and after the
    extraction and after changes of the extract) -/
theorem extract_pure (m : XModel) (focus : List Addr) : (runExtract m focus).1 = m := rfl

/-! ### non-vacuity, and the two findings -/

def A1 : Addr := "S!A1".toList
def A2 : Addr := "S!A2".toList
def A3 : Addr := "S!A3".toList
def B1 : Addr := "S!B1".toList
def B2 : Addr := "S!B2".toList
def C1 : Addr := "T!C1".toList
def RK : Addr := "S!A1:A2".toList
def NM : Addr := "nm".toList
def RN : Addr := "rn".toList

def num (n : Int) : V := .s (.num (.int n))

/-- `A1 = 5, A2 = 7, B1 = f(A1:A2, A1), B2 = f(B1, 1), C1 = f(B2)`, name `nm → A2`, range name `rn → A1:A2` -/
def ex : XModel where
  st := {
    cells := [(A1, { value := num 5, formula := none }), (A2, { value := num 7, formula := none }),
              (B1, { value := .s .blank, formula := some (.app 4 [.rng RK, .ref A1]) }),
              (B2, { value := .s .blank, formula := some (.app 0 [.ref B1, .lit (num 1)]) }),
              (C1, { value := .s .blank, formula := some (.app 7 [.ref B2]) })],
    ranges := [(RK, { cells := [[A1], [A2]] })],
    names := [(NM, A2)] }
  rnames := [(RN, { key := RK, cells := [[A1], [A2]] })]

def exClosure : List Addr := [C1, NM, B2, A2, B1, RK, A1]

/-- the hypotheses of `extract_sound_partial` hold for `ex` and the focus `[C1, nm]` … -/
example : WF ex := wf_of_wfb (by decide)
example : ∀ a ∈ [C1, NM], ex.st.range? a = none := by decide
example : NameFree ex (Closure (deps ex) [C1, NM]) :=
  nameFree_of_list (s := exClosure) (by decide)
    (closure_subset_of_saturated (deps ex) [C1, NM] exClosure (by decide) (by decide))
/-- … the extraction succeeds and copies the five cells, the range and the name -/
example : (extract ex [C1, NM]).toOption.map (fun x => (x.st.cells.map (·.1), x.st.ranges.map (·.1),
    x.st.names, x.formulae)) = some ([C1, A2, B2, B1, A1], [RK], [(NM, A2)], []) := by rfl

/-- finding D1301: `B2 = f(nm)` with `nm → A2`; the extract of `[B2]` holds `B2` only, and `B2` evaluates
    to the blank instead of 7 -/
def exD1301 : XModel where
  st := {
    cells := [(A2, { value := num 7, formula := none }),
              (B2, { value := .s .blank, formula := some (.app 0 [.ref NM]) })],
    ranges := [], names := [(NM, A2)] }

def firstArg : Sem where
  app := fun _ vs => match vs with | v :: _ => .val v | [] => .val (.s .blank)
  truth := fun _ => some true

theorem extract_sound_fails_D1301 :
    ∃ x, extract exD1301 [B2] = .ok x ∧ WF exD1301 ∧ x.st.cells.map (·.1) = [B2]
      ∧ fresh firstArg 5 (buildCode exD1301) B2 = .val (num 7)
      ∧ fresh firstArg 5 (buildCode x) B2 = .val (.s .blank) := by
  refine ⟨_, rfl, wf_of_wfb (by decide), by decide, by decide, by decide⟩

/-- with the repair the witness of D1301 evaluates to 7 in the extract as well -/
example : (extractR exD1301 [B2]).toOption.map (fun x => (x.st.cells.map (·.1), x.st.names,
    fresh firstArg 5 (buildCode x) B2)) = some ([B2, A2], [(NM, A2)], .val (num 7)) := by rfl
example : RNamesRegistered ex := by
  intro n rn h
  have all : ∀ p ∈ ex.rnames, ex.st.range? p.2.key ≠ none := by decide
  exact all (n, rn) (assoc_mem h)
example : RangeMembersNotNames ex := by
  intro k r h y hy
  have all : ∀ p ∈ ex.st.ranges, ∀ y ∈ p.2.cells.flatten, ex.isName y = false := by decide
  exact all (k, r) (assoc_mem h) y hy
example (m : XModel) : Sub XModel.empty m := sub_empty m

/-- finding D1302: a focused name bound to a range with a member that is not in `model.cells`
    (an empty cell of the sheet) makes `extract` raise `KeyError(member)` -/
def exD1302 : XModel where
  st := { cells := [(A1, { value := num 5, formula := none })], ranges := [], names := [] }
  rnames := [(RN, { key := RK, cells := [[A1], [A2]] })]

theorem extract_raises_D1302 : extract exD1302 [RN] = .error A2 := by rfl

end XlVerif.Props.C13
