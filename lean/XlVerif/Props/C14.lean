/-
  C14 — aggregates over ranges equal the reference fold of the addressed cells.

  Two layers.  (1) Theorems about the reference folds `Spec.C14` over ℚ, for *all* lists: invariance
  under permutations, additivity of SUM over every split, MIN ≤ AVERAGE ≤ MAX.  (2) Theorems about
  `Model.C14` (the mirror of flatten / `_validate(Tuple[XlNumber])` / Array / `RangeNode.eval` / the
  seven bodies), for every `Ext`: refinement to the folds on the property's domain, the shape check
  of SUMPRODUCT, error propagation, invariance under permutations, and the registry annotations.
  The correspondence check ties `Model.C14` to the running code.
-/
import XlVerif.Lemmas.C14
import XlVerif.Gen.Registry
namespace XlVerif.Props.C14
open XlVerif XlVerif.Model.Value XlVerif.Model.C14 XlVerif.Spec.C14 XlVerif.Lemmas.C14

/-! ## the registry says what the model assumes (D21/D28: `Tuple[Number]` instead of `Tuple[XlNumber]`
    switches the validation off) -/

/-- (wrapped by validate_args?, annotation of the only — variadic — parameter, return annotation) -/
def variadic (name : List Char) : Option (Bool × Gen.Annot × Gen.Annot) :=
  match Gen.registry.find? (fun f => f.name == name) with
  | some f =>
    (match f.params with
     | [p] => if p.variadic then some (f.validated, p.annot, f.ret) else none
     | _ => none)
  | none => none

def isTupleNumber : Gen.Annot → Bool
  | .tuple .xlNumber => true
  | _ => false
def isTupleArray : Gen.Annot → Bool
  | .tuple .xlArray => true
  | _ => false
def isXlNumber : Gen.Annot → Bool
  | .xlNumber => true
  | _ => false
def isNone : Gen.Annot → Bool
  | .none => true
  | _ => false
/-- an annotation `validate_args` does not cast by (absent, or a bare class) -/
def isNoCast : Gen.Annot → Bool
  | .none => true
  | .cls _ => true
  | _ => false

theorem registry_SUM : (variadic ['S', 'U', 'M']).map
    (fun t => (t.1, isTupleNumber t.2.1, isXlNumber t.2.2)) = some (true, true, true) := by decide
theorem registry_AVERAGE : (variadic ['A', 'V', 'E', 'R', 'A', 'G', 'E']).map
    (fun t => (t.1, isTupleNumber t.2.1, isXlNumber t.2.2)) = some (true, true, true) := by decide
theorem registry_MIN : (variadic ['M', 'I', 'N']).map
    (fun t => (t.1, isTupleNumber t.2.1, isNoCast t.2.2)) = some (true, true, true) := by decide
theorem registry_MAX : (variadic ['M', 'A', 'X']).map
    (fun t => (t.1, isTupleNumber t.2.1, isNoCast t.2.2)) = some (true, true, true) := by decide
theorem registry_COUNT : (variadic ['C', 'O', 'U', 'N', 'T']).map
    (fun t => (t.1, isNone t.2.1, isNoCast t.2.2)) = some (true, true, true) := by decide
theorem registry_COUNTA : (variadic ['C', 'O', 'U', 'N', 'T', 'A']).map
    (fun t => (t.1, isNone t.2.1, isNoCast t.2.2)) = some (true, true, true) := by decide
theorem registry_SUMPRODUCT : (variadic ['S', 'U', 'M', 'P', 'R', 'O', 'D', 'U', 'C', 'T']).map
    (fun t => (t.1, isTupleArray t.2.1, isXlNumber t.2.2)) = some (true, true, true) := by decide

/-! ## (1) the reference folds -/

/-- **sum_perm.** Permuting the addressed values changes none of the six aggregates. -/
theorem sum_perm {xs ys : List S} (h : xs.Perm ys) :
    sum xs = sum ys ∧ mean xs = mean ys ∧ minimum xs = minimum ys ∧ maximum xs = maximum ys ∧
    count xs = count ys ∧ counta xs = counta ys := by
  have hn : (nums xs).Perm (nums ys) := h.filterMap _
  refine ⟨rsum_perm hn, meanL_perm hn, minL_perm hn, maxL_perm hn, hn.length_eq, ?_⟩
  exact (h.filter _).length_eq

/-- permuting the arguments permutes the addressed values -/
theorem args_perm {as bs : List A} (h : as.Perm bs) : (addressed as).Perm (addressed bs) :=
  addressed_perm h

/-- permuting the contents of the cells of one range permutes the addressed values -/
theorem cells_perm (pre post : List A) {rows rows' : List (List S)}
    (h : rows.flatten.Perm rows'.flatten) :
    (addressed (pre ++ A.range rows :: post)).Perm (addressed (pre ++ A.range rows' :: post)) := by
  simp only [addressed_append, addressed, A.cells]
  exact (h.append_right _).append_left _

/-- SUM, AVERAGE, MIN, MAX, COUNT, COUNTA of a permuted argument list -/
theorem aggregates_args_perm {as bs : List A} (h : as.Perm bs) :
    sum (addressed as) = sum (addressed bs) ∧ mean (addressed as) = mean (addressed bs) ∧
    minimum (addressed as) = minimum (addressed bs) ∧ maximum (addressed as) = maximum (addressed bs) ∧
    count (addressed as) = count (addressed bs) ∧ counta (addressed as) = counta (addressed bs) :=
  sum_perm (args_perm h)

/-- **sum_split (lists).** SUM is additive over concatenation. -/
theorem sum_append (xs ys : List S) : sum (xs ++ ys) = sum xs + sum ys := by
  simp only [sum, nums_append, rsum_append]

/-- **sum_split.** For *every* way of distributing the addressed cells over pieces (sub-ranges and
    single cells, in any order): the SUM of the whole is the sum of the SUMs of the pieces. -/
theorem sum_split {whole : List S} (pieces : List (List S)) (h : pieces.flatten.Perm whole) :
    sum whole = rsum (pieces.map sum) := by
  rw [← (sum_perm h).1]
  clear h
  induction pieces with
  | nil => rfl
  | cons p ps ih => simp only [List.flatten_cons, sum_append, List.map_cons, rsum, ih]

/-- the same, with the cells named by an index set (any tiling of a rectangle by sub-rectangles is
    a distribution of its index set over pieces) -/
theorem sum_split_indexed {ι : Type} (f : ι → S) (cells : List ι) (pieces : List (List ι))
    (h : pieces.flatten.Perm cells) :
    sum (cells.map f) = rsum (pieces.map fun p => sum (p.map f)) := by
  have := sum_split (whole := cells.map f) (pieces.map fun p => p.map f) (by
    rw [← List.map_flatten]; exact h.map f)
  rw [this, List.map_map]; rfl

/-- a horizontal cut of a rectangle (rows `< k` and rows `≥ k`) is a split -/
theorem sum_hsplit (rows : List (List S)) (k : Nat) :
    sum rows.flatten = sum (rows.take k).flatten + sum (rows.drop k).flatten := by
  rw [← sum_append, ← List.flatten_append, List.take_append_drop]

/-- a vertical cut of a rectangle (columns `< k` and columns `≥ k` of every row) is a split -/
theorem sum_vsplit (rows : List (List S)) (k : Nat) :
    sum rows.flatten =
      sum (rows.map fun r => r.take k).flatten + sum (rows.map fun r => r.drop k).flatten := by
  rw [← sum_append]
  exact ((sum_perm (vsplit_perm rows k)).1).symm

/-- a range and scalars: `SUM(range, x, …)` -/
theorem sum_args_split (a : A) (as : List A) :
    sum (addressed (a :: as)) = sum a.cells + sum (addressed as) := by
  simp only [addressed, sum_append]

/-- **min_le_avg_le_max.** When at least one number is addressed the three exist, the minimum and
    the maximum are addressed numbers, and MIN ≤ AVERAGE ≤ MAX. -/
theorem min_le_avg_le_max {xs : List S} (h : count xs ≠ 0) :
    ∃ lo m hi, minimum xs = some lo ∧ mean xs = some m ∧ maximum xs = some hi ∧
      lo ≤ m ∧ m ≤ hi ∧ lo ∈ nums xs ∧ hi ∈ nums xs := by
  have hne : nums xs ≠ [] := by
    intro e; apply h; simp [count, e]
  obtain ⟨lo, m, hi, h1, h2, h3, h4, h5⟩ := minL_le_meanL_le_maxL hne
  exact ⟨lo, m, hi, h1, h2, h3, h4, h5, minL_mem h1, maxL_mem h3⟩

example : count [S.num (.int 3), S.text [], S.num (.flt (1 / 2))] ≠ 0 := by decide

/-- SUMPRODUCT does not depend on the order of its arrays -/
theorem sumproduct_args_perm {n : Nat} {cols cols' : List (List Rat)} (h : cols.Perm cols') :
    rsum (products n cols) = rsum (products n cols') := by
  rw [products_perm h]

/-- SUMPRODUCT does not change when the cells of *all* arrays are permuted alike (`idx` is the new
    order of the `n` cell positions) -/
theorem sumproduct_cells_perm {n : Nat} {idx : List Nat} (hp : idx.Perm (List.range n))
    {cols : List (List Rat)} (hl : ∀ c ∈ cols, c.length = n) :
    rsum (products n (cols.map (reindex idx))) = rsum (products n cols) := by
  have hlt : ∀ i ∈ idx, i < n := fun i hi => List.mem_range.mp (hp.mem_iff.mp hi)
  have hlen : idx.length = n := by simpa using hp.length_eq
  rw [products_reindex hlt hlen]
  apply rsum_reindex
  rw [products_length hl]; exact hp

example : [2, 0, 1].Perm (List.range 3) := by decide

/-! ## (2) the model -/

/-- **aggregate_refines.** On the property's domain — numbers, empty cells and non-numeric text in
    rectangular ranges, such values as scalars, and BLANK objects (a reference to a cell that was
    never stored in the model: skipped, not counted as 0) — SUM, AVERAGE, MIN, MAX of the model are
    the sum, mean, minimum, maximum of the addressed values (`getD 0`: when no number is addressed
    the statement demands nothing and the code answers 0). -/
theorem aggregate_refines {ext : Ext} {as : List A} (h : ∀ a ∈ as, ArgOK (InDomB ext) a) :
    (SUM ext (as.map conc)).map Num.toRat = .ok (sum (addressed as)) ∧
    (AVERAGE ext (as.map conc)).map Num.toRat = .ok ((mean (addressed as)).getD 0) ∧
    (MIN ext (as.map conc)).map Num.toRat = .ok ((minimum (addressed as)).getD 0) ∧
    (MAX ext (as.map conc)).map Num.toRat = .ok ((maximum (addressed as)).getD 0) := by
  have hv := validate_dom h
  simp only [SUM, AVERAGE, MIN, MAX, hv, Except.map, sumBody_toRat, avgBody_toRat, minBody_toRat,
    maxBody_toRat, sum, mean, minimum, maximum, nums_eq, and_self]

example : InDom Ext.none (.text "abc".toList) := by
  show textNumber Ext.none "abc".toList = NumR.xl Code.value; decide
example : InDom Ext.none (.text []) := by
  show textNumber Ext.none [] = NumR.xl Code.value; decide
example : ∀ a ∈ [A.range [[S.num (.int 1), S.text []], [S.text "abc".toList, S.num (.flt (1 / 2))]],
    A.scalar (S.num (.int 3)), A.scalar S.blank], ArgOK (InDomB Ext.none) a := by
  intro a ha
  simp only [List.mem_cons, List.not_mem_nil, or_false] at ha
  rcases ha with rfl | rfl | rfl
  · refine ⟨⟨2, by simp⟩, ?_⟩
    intro r hr x hx
    simp only [List.mem_cons, List.not_mem_nil, or_false] at hr
    rcases hr with rfl | rfl <;> simp only [List.mem_cons, List.not_mem_nil, or_false] at hx <;>
      rcases hx with rfl | rfl <;> exact Or.inr (by trivial)
  · exact Or.inr trivial
  · exact Or.inl rfl

/-- D1405 (fixed): a BLANK — an empty member of a range, a reference to a never-stored cell — is
    skipped, not counted as 0; COUNTA does not count it, SUMPRODUCT takes it as zero -/
example : AVERAGE Ext.none [.scalar .xBlank, .scalar (.xNumber (.int 4))] = .ok (.flt 4) := by
  decide +kernel
example : MIN Ext.none [.scalar .xBlank, .scalar (.xNumber (.int 4))] = .ok (.int 4) := by
  decide +kernel
example : MAX Ext.none [.scalar .xBlank, .scalar (.xNumber (.int (-4)))] = .ok (.int (-4)) := by
  decide +kernel
example : mean [S.blank, S.num (.int 4)] = some 4 := by decide +kernel
/-- a range of a compiled model with both kinds of empty member (B1 never stored → BLANK, A2 set to '') -/
example : (AVERAGE Ext.none [rangeArray [[S.num (.int 2), S.blank], [S.text [], S.text "abc".toList]]],
    COUNT [rangeArray [[S.num (.int 2), S.blank], [S.text [], S.text "abc".toList]]],
    COUNTA [rangeArray [[S.num (.int 2), S.blank], [S.text [], S.text "abc".toList]]],
    SUMPRODUCT Ext.none [rangeArray [[S.num (.int 2), S.blank], [S.text [], S.text "abc".toList]]]) =
    (.ok (.flt 2), .ok (.int 1), .ok (.int 2), .ok (.flt 2)) := by decide +kernel

/-- **count_spec** (partial: D1404).  COUNT is the count of numbers among the addressed values — for
    every typed value, not only the domain — provided at most 255 values are addressed. -/
theorem count_spec_partial {as : List A} (h : ∀ a ∈ as, ArgOK (fun _ => True) a)
    (hne : addressed as ≠ []) (hlen : (addressed as).length ≤ 255) :
    COUNT (as.map conc) = .ok (.int (count (addressed as))) := by
  unfold COUNT
  simp only [flatArgs_conc h]
  have h1 : ((addressed as).map typedPy).isEmpty = false := by
    cases hx : addressed as with
    | nil => exact absurd hx hne
    | cons _ _ => rfl
  have h2 : ¬ ((addressed as).map typedPy).head? = some Py.none := head_typed_ne_none _
  simp only [h1, h2, decide_false, Bool.or_false, Bool.false_eq_true, if_false, List.length_map]
  rw [if_neg (by omega), count_typed]

/-- **counta_spec** (partial: D1404).  COUNTA is the count of non-empty values (at most 256 values). -/
theorem counta_spec_partial {as : List A} (h : ∀ a ∈ as, ArgOK (fun _ => True) a)
    (hne : addressed as ≠ []) (hlen : (addressed as).length ≤ 256) :
    COUNTA (as.map conc) = .ok (.int (counta (addressed as))) := by
  unfold COUNTA
  simp only [flatArgs_conc h]
  have h1 : ((addressed as).map typedPy).isEmpty = false := by
    cases hx : addressed as with
    | nil => exact absurd hx hne
    | cons _ _ => rfl
  have h2 : ¬ ((addressed as).map typedPy).head? = some Py.none := head_typed_ne_none _
  simp only [h1, h2, decide_false, Bool.or_false, Bool.false_eq_true, if_false, List.length_map]
  rw [if_neg (by omega), counta_typed]

/- Known finding D1404.  The full-strength `count_spec` / `counta_spec` carry no bound on the number
   of addressed values.  They are false for the model (and the code): the limit of 255 / 256
   *arguments* is applied to the flattened values (asserted by `test_COUNT_with_too_many_values`). -/
example : COUNT [Arg.arr [List.replicate 256 (Py.xNumber (.int 1))]] = .error (.xl .value) := by
  decide +kernel
example : COUNTA [Arg.arr [List.replicate 257 (Py.xNumber (.int 1))]] = .error (.xl .value) := by
  decide +kernel
example : ∀ a ∈ [A.range [[S.num (.int 1), S.bool true]], A.scalar (S.text "x".toList)],
    ArgOK (fun _ => True) a := by
  intro a ha
  simp only [List.mem_cons, List.not_mem_nil, or_false] at ha
  rcases ha with rfl | rfl
  · exact ⟨⟨2, by simp⟩, fun _ _ _ _ => trivial⟩
  · trivial

/-- **sumproduct_spec.** On equally shaped rectangular ranges of the domain (BLANK objects included)
    SUMPRODUCT is the sum of the element-wise products, texts and empty cells counting as zero. -/
theorem sumproduct_spec {ext : Ext} (a : List (List S)) (rest : List (List (List S)))
    (hrect : ∀ b ∈ a :: rest, ∃ w, ∀ r ∈ b, r.length = w)
    (hdom : ∀ b ∈ a :: rest, ∀ r ∈ b, ∀ x ∈ r, InDomB ext x)
    (hdims : ∀ b ∈ rest, dims b = dims a) :
    ∃ n, SUMPRODUCT ext ((a :: rest).map fun rows => conc (A.range rows)) = .ok n ∧
      sumproduct (a :: rest) = some n.toRat :=
  sumproduct_refines a rest hrect hdom hdims

example : SUMPRODUCT Ext.none
    [conc (A.range [[S.num (.int 1), S.num (.int 2)], [S.num (.int 3), S.text []]]),
     conc (A.range [[S.num (.int 5), S.num (.int 6)], [S.num (.int 7), S.num (.int 8)]])]
    = .ok (.int 38) := by decide

/-- **sumproduct_shape.** If no array holds an error item and some array is shaped differently from
    the first (which is not the empty `Array([])`), the result is `#VALUE!`. -/
theorem sumproduct_shape {ext : Ext} (a1 : Arg) (rest : List Arg)
    (herr : ∀ a ∈ a1 :: rest, hasErr (toRows a) = false)
    (h0 : shape (toRows a1) ≠ (0, 0))
    (hmis : ∃ b ∈ rest, shape (toRows b) ≠ shape (toRows a1)) :
    SUMPRODUCT ext (a1 :: rest) = .error (.xl .value) := by
  rw [SUMPRODUCT_eq]
  simp only [List.map_cons, spCore, if_neg h0]
  have : checkArrays (shape (toRows a1)) (toRows a1 :: rest.map toRows) = some Code.value := by
    apply checkArrays_value
    · intro x hx
      rcases List.mem_cons.mp hx with rfl | hx
      · exact herr a1 (by simp)
      · obtain ⟨b, hb, rfl⟩ := List.mem_map.mp hx
        exact herr b (List.mem_cons_of_mem _ hb)
    · obtain ⟨b, hb, hne⟩ := hmis
      exact ⟨toRows b, List.mem_cons_of_mem _ (List.mem_map_of_mem hb), hne⟩
  rw [this]

example : SUMPRODUCT Ext.none [.arr [[.xNumber (.int 1), .xNumber (.int 2)]],
    .arr [[.xNumber (.int 1)], [.xNumber (.int 2)]]] = .error (.xl .value) := by decide

/-- an error item in an array of SUMPRODUCT (all arrays before it clean and shaped like the first)
    gives `#N/A` whatever the error is — as coded, asserted by the suite; C14 does not say which. -/
theorem sumproduct_error {ext : Ext} (pre post : List Arg) (a : Arg) (first : Arg)
    (hfirst : (pre ++ a :: post).head? = some first)
    (h0 : shape (toRows first) ≠ (0, 0))
    (hpre : ∀ b ∈ pre, shape (toRows b) = shape (toRows first) ∧ hasErr (toRows b) = false)
    (hs : shape (toRows a) = shape (toRows first)) (he : hasErr (toRows a) = true) :
    SUMPRODUCT ext (pre ++ a :: post) = .error (.xl .na) := by
  rw [SUMPRODUCT_eq]
  have hna : checkArrays (shape (toRows first)) ((pre ++ a :: post).map toRows) = some Code.na := by
    rw [List.map_append, List.map_cons]
    apply checkArrays_na _ hs he
    intro b hb
    obtain ⟨b', hb', rfl⟩ := List.mem_map.mp hb
    exact hpre b' hb'
  cases hl : pre ++ a :: post with
  | nil => simp at hl
  | cons x xs =>
    rw [hl] at hfirst hna
    simp only [List.head?_cons, Option.some.injEq] at hfirst
    subst hfirst
    simp only [List.map_cons, spCore, if_neg h0] at hna ⊢
    rw [hna]

/-- **Error propagation.** The leftmost error item among the flattened arguments is the result of
    SUM, AVERAGE, MIN and MAX, whatever else the arguments hold (D15). -/
theorem error_leftmost {ext : Ext} {args : List Arg} {pre post : List Py} {c : Code}
    (hflat : flatArgs args = pre ++ Py.xErr c :: post) (hpre : ∀ v ∈ pre, errOf v = none) :
    SUM ext args = .error (.xl c) ∧ AVERAGE ext args = .error (.xl c) ∧
    MIN ext args = .error (.xl c) ∧ MAX ext args = .error (.xl c) := by
  have : validateNumbers ext args = .error (.xl c) := by
    unfold validateNumbers
    simp only [hflat, firstError_leftmost hpre]
  simp only [SUM, AVERAGE, MIN, MAX, this, Except.map, and_self]

example : flatArgs [.scalar (.int 1), .arr [[.xNumber (.int 2), .xErr .na], [.xErr .div0]]] =
    [Py.int 1, .xNumber (.int 2)] ++ Py.xErr .na :: [.xErr .div0, .none] := by decide
example : SUM Ext.none [.scalar (.int 1), .scalar (.xErr .na)] = .error (.xl .na) := by decide

/-- COUNT and COUNTA do not propagate error items: COUNT skips them, COUNTA counts them. -/
example : COUNT [.scalar (.int 1), .scalar (.xErr .na)] = .ok (.int 1) := by decide
example : COUNTA [.scalar (.int 1), .scalar (.xErr .na)] = .ok (.int 2) := by decide

/-- **agg_perm.** Whenever two argument lists flatten to permutations of one another (arguments
    reordered, cells permuted inside a range, a range cut into pieces) and the items are clean (no
    error item; every item is a number or is dropped), SUM, AVERAGE, MIN and MAX agree. -/
theorem agg_perm {ext : Ext} {a b : List Arg} (hp : (flatArgs a).Perm (flatArgs b))
    (hc : Clean ext (flatArgs a)) :
    (SUM ext a).map Num.toRat = (SUM ext b).map Num.toRat ∧
    (AVERAGE ext a).map Num.toRat = (AVERAGE ext b).map Num.toRat ∧
    (MIN ext a).map Num.toRat = (MIN ext b).map Num.toRat ∧
    (MAX ext a).map Num.toRat = (MAX ext b).map Num.toRat := by
  have hk : ((kept ext (flatArgs a)).map Num.toRat).Perm ((kept ext (flatArgs b)).map Num.toRat) :=
    (kept_perm hp).map _
  simp only [SUM, AVERAGE, MIN, MAX, validate_clean hc, validate_clean (hc.perm hp), Except.map,
    sumBody_toRat, avgBody_toRat, minBody_toRat, maxBody_toRat, rsum_perm hk, meanL_perm hk,
    minL_perm hk, maxL_perm hk, and_self]

/-- reordering the arguments is such a permutation -/
theorem agg_args_perm {ext : Ext} {a b : List Arg} (hp : a.Perm b) (hc : Clean ext (flatArgs a)) :
    (SUM ext a).map Num.toRat = (SUM ext b).map Num.toRat ∧
    (AVERAGE ext a).map Num.toRat = (AVERAGE ext b).map Num.toRat ∧
    (MIN ext a).map Num.toRat = (MIN ext b).map Num.toRat ∧
    (MAX ext a).map Num.toRat = (MAX ext b).map Num.toRat :=
  agg_perm (flatArgs_perm hp) hc

example : flatArgs [.scalar (.int 3), .arr [[.xText "abc".toList, .xNumber (.flt (1 / 2))]]] =
    [Py.int 3, .xText "abc".toList, .xNumber (.flt (1 / 2))] := by rfl
example : Clean Ext.none [Py.int 3, .xText "abc".toList, .xNumber (.flt (1 / 2))] := by
  constructor <;> intro v hv <;> simp only [List.mem_cons, List.not_mem_nil, or_false] at hv <;>
    rcases hv with rfl | rfl | rfl
  · rfl
  · rfl
  · rfl
  · exact Or.inr ⟨_, rfl⟩
  · exact Or.inl (by decide)
  · exact Or.inr ⟨_, rfl⟩

/-- COUNT and COUNTA are invariant as well (no Python `None` among the values: `values[0] is None`
    is the one order-dependent test of the code). -/
theorem count_perm {a b : List Arg} (hp : (flatArgs a).Perm (flatArgs b))
    (hn : Py.none ∉ flatArgs a) : COUNT a = COUNT b ∧ COUNTA a = COUNTA b := by
  have hn' : Py.none ∉ flatArgs b := fun h => hn (hp.mem_iff.mpr h)
  have he : (flatArgs a).isEmpty = (flatArgs b).isEmpty := by
    have := hp.length_eq
    cases ha : flatArgs a <;> cases hb : flatArgs b <;> simp_all
  have h1 : ¬ (flatArgs a).head? = some Py.none := fun h => hn (head?_mem h)
  have h2 : ¬ (flatArgs b).head? = some Py.none := fun h => hn' (head?_mem h)
  unfold COUNT COUNTA
  simp only [he, h1, h2, decide_false, Bool.or_false, hp.length_eq, (hp.filter _).length_eq,
    and_self]

/-- the constant of `RangeNode.eval` is not below the value the known finding D1403 was listed with
    (a smaller `MAX_EMPTY` cuts more ranges short) -/
theorem max_empty_bound : 100 ≤ Gen.C14.maxEmpty := by decide

/-- **The Array of a range.**  `RangeNode.eval` hands on exactly the cells of the range when the
    range has no empty row and at most `MAX_EMPTY` empty cells. -/
theorem range_exact_partial (cells : List (List S)) (hrows : ∀ r ∈ cells, r ≠ [])
    (hfew : (cells.flatten.filter cellEmpty).length ≤ Gen.C14.maxEmpty) :
    rangeArray cells = conc (A.range cells) := by
  unfold rangeArray rangeArrayWith
  rw [scanRows_id cells 0 0 (by omega) hrows]
  rfl

/- Known finding D1403.  The full-strength statement has no bound on the number of empty cells:

     theorem range_exact (cells) (hrows : ∀ r ∈ cells, r ≠ []) : rangeArray cells = conc (A.range cells)

   It is false for the model (and the code): after a run of more than `MAX_EMPTY` empty cells
   (counted across rows) the rest of the row is dropped, after `MAX_EMPTY` such rows the rest of the
   range.  Counter-examples with the constant the code has now (A1 = 2, 101 never-stored members (BLANK), then 4): -/
example : SUM Ext.none [rangeArray [S.num (.int 2) :: (List.replicate 101 S.blank ++ [S.num (.int 4)])]]
    = .ok (.int 2) := by decide +kernel
example : sum (S.num (.int 2) :: (List.replicate 101 S.blank ++ [S.num (.int 4)])) = 6 := by
  decide +kernel
example : (S.num (.int 2) :: (List.replicate 101 S.blank ++ [S.num (.int 4)])) ≠ [] := by simp

/-- **Through formulas.**  An aggregate formula over ranges of a compiled model and scalar operands
    (values of the domain, BLANK references included; ranges rectangular with at most `MAX_EMPTY`
    empty cells) computes the
    folds of the statement over exactly the cells of the ranges. -/
theorem formula_refines_partial {ext : Ext} {as : List A} (h : ∀ a ∈ as, ArgOK (InDomB ext) a)
    (hfew : ∀ a ∈ as, ∀ rows, a = A.range rows →
      (∀ r ∈ rows, r ≠ []) ∧ (rows.flatten.filter cellEmpty).length ≤ Gen.C14.maxEmpty) :
    let args := as.map fun a => (match a with
      | .scalar x => FArg.value x | .range rows => FArg.range rows).eval
    (SUM ext args).map Num.toRat = .ok (sum (addressed as)) ∧
    (AVERAGE ext args).map Num.toRat = .ok ((mean (addressed as)).getD 0) ∧
    (MIN ext args).map Num.toRat = .ok ((minimum (addressed as)).getD 0) ∧
    (MAX ext args).map Num.toRat = .ok ((maximum (addressed as)).getD 0) := by
  intro args
  have : args = as.map conc := by
    apply List.map_congr_left
    intro a ha
    cases a with
    | scalar x => rfl
    | range rows =>
      obtain ⟨h1, h2⟩ := hfew _ ha rows rfl
      exact range_exact_partial rows h1 h2
  rw [this]
  exact aggregate_refines h

end XlVerif.Props.C14
