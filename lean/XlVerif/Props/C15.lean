/-
  C15 — criteria counting and lookups agree with a linear scan of the range.

  Theorems about `Model.C15` (the mirror of xlcriteria.py, COUNTIF/COUNTIFS of statistics.py and
  lookup.py) for ALL columns, tables, criteria, keys and indices, and the refinement of the model to
  `Spec.C15` on the statement's domain.  The regular expression and the operator table come from
  `Gen.Misc` and are pinned by `decide` obligations stated as shape conditions.
-/
import XlVerif.Model.C15
import XlVerif.Spec.C15
import XlVerif.Lemmas.C15Regex
import XlVerif.Lemmas.C15Number
import XlVerif.Props.C09
namespace XlVerif.Props.C15
open XlVerif XlVerif.Model.Value XlVerif.Model.C15 XlVerif.Spec.C09 XlVerif.Lemmas.C15

/-! ## obligations on the regenerated tables -/

/-- `CRITERIA_REGEX` has the shape `(alt|…|alt)?(.*)` with literal alternatives over `< > =` -/
theorem regex_shape : (regexAlts Gen.criteriaRegex).isSome = true := by decide

/-- its alternatives are operator strings of length ≤ 2 and, tried in order, select the longest
    operator prefix on all 21 representative two-character strings (order/shape condition, not a
    literal comparison: an equivalent reordering still passes) -/
theorem regex_alts_ok : altsOK genAlts = true := by decide

/-- the model's operator type for a statement operator -/
def toBin : Spec.C15.Op → BinOp
  | .eq => .eq | .ne => .ne | .lt => .lt | .le => .le | .gt => .gt | .ge => .ge

/-- `CRITERIA_OPERATORS` maps exactly the six prefixes of the statement to their operators
    (through `lookup`, so the order of the table does not matter) and nothing to the empty prefix -/
theorem operator_table :
    operatorOf [] = none ∧
    operatorOf ['<'] = some .lt ∧ operatorOf ['<', '='] = some .le ∧ operatorOf ['='] = some .eq ∧
    operatorOf ['<', '>'] = some .ne ∧ operatorOf ['>', '='] = some .ge ∧ operatorOf ['>'] = some .gt := by
  decide

/-- `sort_precedence` separates numbers (and dates), texts and booleans -/
theorem precedence_table (n : Num) (t : List Char) (b : Bool) (d : Rat) :
    precedence (.num n) = some 0 ∧ precedence (.text t) = some 1 ∧ precedence (.bool b) = some 2 ∧
    precedence (.date d) = some 0 ∧ precedence .blank = some 0 ∧ ∀ c, precedence (.err c) = none :=
  ⟨rfl, rfl, rfl, rfl, rfl, fun _ => rfl⟩

/-! ## the criteria parser -/

/-- **the regex split is the longest-operator-prefix split, for every string** -/
theorem split_spec (s : List Char) :
    regexSplit genAlts s =
      ((Spec.C15.splitOp s).1, (Spec.C15.splitOp s).2.takeWhile (fun c => c ≠ '\n')) :=
  regexSplit_spec regex_alts_ok s

theorem splitOp_cases (s : List Char) :
    (Spec.C15.splitOp s).1 = [] ∧ (Spec.C15.splitOp s).2 = s ∨
    (Spec.C15.splitOp s).1 = ['<'] ∨ (Spec.C15.splitOp s).1 = ['<', '='] ∨ (Spec.C15.splitOp s).1 = ['='] ∨
    (Spec.C15.splitOp s).1 = ['<', '>'] ∨ (Spec.C15.splitOp s).1 = ['>', '='] ∨ (Spec.C15.splitOp s).1 = ['>'] := by
  unfold Spec.C15.splitOp
  split <;> simp

theorem takeWhile_id {α} {p : α → Bool} {l : List α} (h : ∀ a ∈ l, p a = true) : l.takeWhile p = l := by
  induction l with
  | nil => rfl
  | cons a r ih => simp [h a (by simp), ih (fun b hb => h b (by simp [hb]))]

theorem no_newline {l : List Char} (h : l.contains '\n' = false) :
    l.takeWhile (fun c => c ≠ '\n') = l := by
  apply takeWhile_id
  intro a ha
  simp only [List.contains_eq_mem, decide_eq_false_iff_not] at h
  simp only [ne_eq, decide_not, Bool.not_eq_eq_eq_not, Bool.not_true, decide_eq_false_iff_not]
  intro e; subst e; exact h ha

/-- how `parse_criteria` splits and types a text whose operand has no line break: the operator is the
    statement's, the ordering flag is set exactly for `< <= > >=`, and the operand typed is the
    text after the operator prefix -/
theorem parseText_eq (ext : Ext) (s : List Char) (hnl : (Spec.C15.splitOp s).2.contains '\n' = false) :
    parseText ext s =
      (typeOperand ext (Spec.C15.splitOp s).2).map fun v =>
        ⟨toBin (Spec.C15.opOfPrefix (Spec.C15.splitOp s).1),
         (Spec.C15.opOfPrefix (Spec.C15.splitOp s).1).ordering, v⟩ := by
  obtain ⟨t0, t1, t2, t3, t4, t5, t6⟩ := operator_table
  unfold parseText
  rw [split_spec, no_newline hnl]
  rcases splitOp_cases s with ⟨h, h2⟩ | h | h | h | h | h | h <;>
    simp [h, t0, t1, t2, t3, t4, t5, t6, Spec.C15.opOfPrefix, toBin, Spec.C15.Op.ordering]
  · rw [h2]

/-- **numeric operands**: for every operator prefix and every numeral `-?digits(.digits)?` the
    criterion is (operator, that number) — e.g. `"<-1"` is `(<, -1)`, `">=-2.5"` is `(>=, -2.5)`. -/
theorem parse_numeric (ext : Ext) (s : List Char) (q : Rat)
    (hnl : (Spec.C15.splitOp s).2.contains '\n' = false)
    (h : Spec.C15.number? (Spec.C15.splitOp s).2 = some q) :
    ∃ n, n.toRat = q ∧ parseText ext s =
      some ⟨toBin (Spec.C15.opOfPrefix (Spec.C15.splitOp s).1),
            (Spec.C15.opOfPrefix (Spec.C15.splitOp s).1).ordering, .num n⟩ := by
  obtain ⟨n, hn, hq⟩ := number_sound ext _ q h
  refine ⟨n, hq, ?_⟩
  rw [parseText_eq ext s hnl]
  simp [typeOperand, hn]

/-- **text operands**: for every operator prefix and every word the criterion is (operator, that
    text) -/
theorem parse_word (ext : Ext) (s : List Char)
    (hw : Spec.C15.isWord (Spec.C15.splitOp s).2 = true)
    (hdate : ext.dateParse (Spec.C15.splitOp s).2 = none) :
    parseText ext s =
      some ⟨toBin (Spec.C15.opOfPrefix (Spec.C15.splitOp s).1),
            (Spec.C15.opOfPrefix (Spec.C15.splitOp s).1).ordering, .text (Spec.C15.splitOp s).2⟩ := by
  have hnl : (Spec.C15.splitOp s).2.contains '\n' = false := by
    generalize (Spec.C15.splitOp s).2 = t at hw
    cases t with
    | nil => simp [Spec.C15.isWord] at hw
    | cons c r =>
      simp only [Spec.C15.isWord, Bool.and_eq_true, Bool.not_eq_true'] at hw
      exact hw.1.2
  rw [parseText_eq ext s hnl, word_is_text ext _ hw hdate]
  rfl

/-- **refinement of the parser**: whenever the statement assigns a criterion to a text, the code's
    parser produces that operator, the ordering flag of the operator, and an operand of that class -/
theorem parse_refines (ext : Ext) (s : List Char) (op : Spec.C15.Op) (k : Cls)
    (h : Spec.C15.critOfText s = some (op, k))
    (hdate : ext.dateParse (Spec.C15.splitOp s).2 = none) :
    ∃ v, cls v = some k ∧ parseText ext s = some ⟨toBin op, op.ordering, v⟩ := by
  unfold Spec.C15.critOfText at h
  simp only at h
  split at h
  · simp at h
  · rename_i hnl
    have hnl' : (Spec.C15.splitOp s).2.contains '\n' = false := by simpa using hnl
    split at h
    · rename_i q hq
      simp only [Option.some.injEq, Prod.mk.injEq] at h
      obtain ⟨n, hn, hp⟩ := parse_numeric ext s q hnl' hq
      exact ⟨.num n, by simp [cls, hn, ← h.2], by rw [hp, h.1]⟩
    · split at h
      · rename_i hw
        simp only [Option.some.injEq, Prod.mk.injEq] at h
        exact ⟨.text (Spec.C15.splitOp s).2, by simp [cls, ← h.2], by rw [parse_word ext s hw hdate, h.1]⟩
      · simp at h

/-! ## the check closures -/

/-- the type class of a value as a number (the code's `sort_precedence`) -/
def kindNat : Cls → Nat | .number _ => 0 | .text _ => 1 | .logical _ => 2

theorem precedence_cls {v : S} {k : Cls} (h : cls v = some k) :
    precedence v = some (kindNat k) ∧ isBlank v = false := by
  cases v <;> simp [cls] at h <;> subst h <;> exact ⟨rfl, rfl⟩

theorem sameKind_iff (x k : Cls) : Spec.C15.sameKind x k = decide (kindNat x = kindNat k) := by
  cases x <;> cases k <;> rfl

/-- a check result that is not an error object -/
def CheckR.clean : CheckR → Prop | .err _ => False | _ => True

/-- **the closure of a text criterion decides the statement's predicate**: on a cell of class `x`
    it returns a (Python or Excel) boolean whose truth is `holds op k x`; an ordering criterion
    rejects cells of another type before comparing. -/
theorem checkText_spec (ext : Ext) (op : Spec.C15.Op) {v probe : S} {k x : Cls}
    (hv : cls v = some k) (hp : cls probe = some x) :
    ∃ r, checkText ext ⟨toBin op, op.ordering, v⟩ probe = .ok r ∧
      r.truthy = Spec.C15.holds op k x ∧ CheckR.clean r := by
  obtain ⟨c1, c2, c3, c4, c5, c6⟩ := Props.C09.cmp_refines ext hp hv
  obtain ⟨p1, b1⟩ := precedence_cls hp
  obtain ⟨p2, _⟩ := precedence_cls hv
  cases op <;>
    simp only [checkText, toBin, Spec.C15.Op.ordering, p1, p2, b1, c1, c2, c3, c4, c5, c6, ofOpR,
      Spec.C15.holds, sameKind_iff, if_true, Bool.false_eq_true, if_false]
  · exact ⟨_, rfl, rfl, trivial⟩
  · exact ⟨_, rfl, rfl, trivial⟩
  all_goals
    by_cases hk : kindNat x = kindNat k
    · simp [hk, CheckR.truthy, CheckR.clean]
    · simp [hk, CheckR.truthy, CheckR.clean]

/-- the closure of a plain-value criterion is equality with that value -/
theorem checkPlain_spec {crit probe : S} {k x : Cls} (hv : cls crit = some k) (hp : cls probe = some x) :
    ∃ r, checkPlain crit probe = .ok r ∧ r.truthy = Spec.C15.holds .eq k x ∧ CheckR.clean r := by
  obtain ⟨_, _, c3, _, _, _⟩ := Props.C09.cmp_refines Ext.none hp hv
  have hne : ∀ c, probe ≠ .err c := by intro c h; subst h; simp [cls] at hp
  have h1 : firstErr probe crit = none := (Props.C09.firstErr_none hp hv).1
  have : richCmp .eq probe crit = .val (.bool (decide (x = k))) := by
    simpa [binop, h1] using c3
  cases probe <;> simp_all [checkPlain, ofOpR, CheckR.truthy, CheckR.clean, Spec.C15.holds]

/-! ## COUNTIF -/

theorem sumChecks_count (l : List CheckR) (hl : ∀ r ∈ l, CheckR.clean r) (isNum : Bool) (n : Int) :
    sumChecks l isNum n = .ok (.num (.int (n + ((l.filter CheckR.truthy).length : Nat)))) := by
  induction l generalizing isNum n with
  | nil => simp [sumChecks]
  | cons r rest ih =>
    have hr := hl r (by simp)
    have ih' := fun b m => ih (fun x hx => hl x (by simp [hx])) b m
    cases r with
    | pyFalse => simp [sumChecks, ih', CheckR.truthy]
    | b v =>
      cases v
      · simp [sumChecks, ih', CheckR.truthy]
      · have : (List.filter CheckR.truthy (CheckR.b true :: rest)).length
            = (List.filter CheckR.truthy rest).length + 1 := by
          rw [List.filter_cons_of_pos (by rfl)]; rfl
        simp only [sumChecks, ih', this, if_true]
        congr 3; push_cast; omega
    | err c => exact absurd hr (by simp [CheckR.clean])

/-- a check that decides `pred` on classified cells counts like the filter -/
theorem mapE_counts (chk : S → Except Crash CheckR) (pred : Cls → Bool)
    (hchk : ∀ probe x, cls probe = some x → ∃ r, chk probe = .ok r ∧ r.truthy = pred x ∧ CheckR.clean r)
    (cells : List S) (hc : ∀ c ∈ cells, cls c ≠ none) :
    ∃ l, mapE chk cells = .ok l ∧ (∀ r ∈ l, CheckR.clean r) ∧
      l.map CheckR.truthy = (cells.filterMap cls).map pred := by
  induction cells with
  | nil => exact ⟨[], rfl, by simp, rfl⟩
  | cons c rest ih =>
    obtain ⟨l, hl, hcl, hcount⟩ := ih (fun x hx => hc x (by simp [hx]))
    have hcc := hc c (by simp)
    cases hx : cls c with
    | none => exact absurd hx hcc
    | some x =>
      obtain ⟨r, hr, ht, hclean⟩ := hchk c x hx
      refine ⟨r :: l, by simp [mapE, hr, hl], ?_, ?_⟩
      · intro y hy; rcases List.mem_cons.mp hy with h | h
        · subst h; exact hclean
        · exact hcl y h
      · simp [hx, ht, hcount]

theorem filter_length_map {α} (l : List α) (f : α → Bool) :
    (l.filter f).length = ((l.map f).filter id).length := by
  induction l with
  | nil => rfl
  | cons a r ih => by_cases h : f a = true <;> simp [h, ih]

/-- **countif_spec (text criterion)**: for every criterion text the statement gives a meaning to and
    every column of numbers/texts, COUNTIF is the number of cells for which the criterion holds —
    the length of the filter by the criterion predicate. -/
theorem countif_spec (ext : Ext) (s : List Char) (op : Spec.C15.Op) (k : Cls)
    (h : Spec.C15.critOfText s = some (op, k))
    (hdate : ext.dateParse (Spec.C15.splitOp s).2 = none)
    (cells : List S) (hc : ∀ c ∈ cells, cls c ≠ none) :
    COUNTIF ext cells (.text s) = .ok (.num (.int (Spec.C15.countif op k (cells.filterMap cls)))) := by
  obtain ⟨v, hv, hp⟩ := parse_refines ext s op k h hdate
  obtain ⟨l, hl, hcl, hm⟩ := mapE_counts (checkText ext ⟨toBin op, op.ordering, v⟩) (Spec.C15.holds op k)
    (fun probe x hx => checkText_spec ext op hv hx) cells hc
  simp only [COUNTIF, mkCheck, hp, Option.map_some, hl, sumChecks_count l hcl, Spec.C15.countif]
  rw [filter_length_map l, hm, ← filter_length_map]
  simp

/-- **countif_spec (plain value)**: a criterion that is a value counts the cells equal to it -/
theorem countif_value (ext : Ext) (crit : S) (k : Cls) (hk : cls crit = some k) (ht : ∀ t, crit ≠ .text t)
    (cells : List S) (hc : ∀ c ∈ cells, cls c ≠ none) :
    COUNTIF ext cells crit = .ok (.num (.int (Spec.C15.countif .eq k (cells.filterMap cls)))) := by
  obtain ⟨l, hl, hcl, hm⟩ := mapE_counts (checkPlain crit) (Spec.C15.holds .eq k)
    (fun probe x hx => checkPlain_spec hk hx) cells hc
  have hne : ∀ c, crit ≠ .err c := by intro c h; subst h; simp [cls] at hk
  cases crit with
  | text t => exact absurd rfl (ht t)
  | err c => exact absurd rfl (hne c)
  | _ =>
    simp only [COUNTIF, mkCheck, hl, sumChecks_count l hcl, Spec.C15.countif]
    rw [filter_length_map l, hm, ← filter_length_map]
    simp

end XlVerif.Props.C15
