/-
  C15 — criteria counting and lookups agree with a linear scan of the range.

  Property theorems about `Model.C15` (the mirror of xlcriteria.py, COUNTIF/COUNTIFS of statistics.py
  and lookup.py) for ALL columns, tables, criteria, keys and indices; the refinement of the model to
  `Spec.C15` on the statement's domain; the `decide` obligations on the regenerated regular expression
  and operator table; non-vacuity examples and regression examples for the repaired defects
  (D29–D32, D1501–D1503).  Proofs and helper lemmas: `Lemmas/C15Regex.lean`, `Lemmas/C15Number.lean`,
  `Lemmas/C15Main.lean`.

  Vocabulary (defined in the lemma files): `cls` (Spec.C09) is the order class of a non-blank,
  non-error scalar; `toBin` maps a statement operator to the model's; `Decides chk q` = the closure
  `chk` answers criterion `q` on every classified cell; `AllPairs pairs sp` = every (range, criterion)
  pair has the statement-level reading in `sp`; `KeyedRows rows sp` = every row has a classified key
  cell; `flattenPairs` = the flattened varargs of COUNTIFS.
-/
import XlVerif.Lemmas.C15Main
namespace XlVerif.Props.C15
open XlVerif XlVerif.Model.Value XlVerif.Model.C15 XlVerif.Spec.C09 XlVerif.Lemmas.C15

/-! ## obligations on the regenerated tables (re-checked against what the code says now) -/

/-- the criteria regex of the running code BEHAVES like `regexSplit genAlts` (first alternative that is a prefix, then the
    rest up to a newline): on every probed text (all texts of length ≤ 3 over `< > = a 1 blank newline`, split by the real
    regex when the tables were regenerated) the model splits exactly as the code does.  A behavioural tie: an
    equivalent rewrite of the regex (character classes, compiled, renamed) keeps this obligation. -/
theorem regex_shape : Gen.criteriaSplitProbe.all (fun p => regexSplit genAlts p.1 == (p.2.1, p.2.2)) = true := by
  decide +kernel

/-- its alternatives are operator strings of length ≤ 2 and, tried in order, select the longest
    operator prefix on all 21 representative strings (an order/shape condition, not a literal
    comparison: an equivalent reordering still passes, `<` before `<=` does not) -/
theorem regex_alts_ok : altsOK genAlts = true := by decide

/-- `CRITERIA_OPERATORS` maps exactly the six prefixes of the statement to their operators (through
    `lookup`: the order of the table does not matter) and nothing to the empty prefix -/
theorem operator_table :
    operatorOf [] = none ∧
    operatorOf ['<'] = some .lt ∧ operatorOf ['<', '='] = some .le ∧ operatorOf ['='] = some .eq ∧
    operatorOf ['<', '>'] = some .ne ∧ operatorOf ['>', '='] = some .ge ∧ operatorOf ['>'] = some .gt := by
  decide

/-- `sort_precedence` separates numbers (and dates), texts and booleans; an error has none -/
theorem precedence_table (n : Num) (t : List Char) (b : Bool) (d : Rat) :
    precedence (.num n) = some 0 ∧ precedence (.text t) = some 1 ∧ precedence (.bool b) = some 2 ∧
    precedence (.date d) = some 0 ∧ precedence .blank = some 0 ∧ ∀ c, precedence (.err c) = none :=
  ⟨rfl, rfl, rfl, rfl, rfl, fun _ => rfl⟩

/-! ## property and refinement theorems -/

/-- **the regex split is the longest-operator-prefix split, for every string** -/
theorem split_spec (s : List Char) :
    regexSplit genAlts s =
      ((Spec.C15.splitOp s).1, (Spec.C15.splitOp s).2.takeWhile (fun c => c ≠ '\n')) := by
  apply Lemmas.C15.split_spec <;> assumption

/-- **numeric operands**: for every operator prefix and every numeral `-?digits(.digits)?` the
    criterion is (operator, that number) — e.g. `"<-1"` is `(<, -1)`, `">=-2.5"` is `(>=, -2.5)`. -/
theorem parse_numeric (ext : Ext) (s : List Char) (q : Rat)
    (hnl : (Spec.C15.splitOp s).2.contains '\n' = false)
    (h : Spec.C15.number? (Spec.C15.splitOp s).2 = some q) :
    ∃ n, n.toRat = q ∧ parseText ext s =
      some ⟨toBin (Spec.C15.opOfPrefix (Spec.C15.splitOp s).1),
            (Spec.C15.opOfPrefix (Spec.C15.splitOp s).1).ordering, .num n⟩ := by
  apply Lemmas.C15.parse_numeric <;> assumption

/-- **text operands**: for every operator prefix and every word the criterion is (operator, that
    text) -/
theorem parse_word (ext : Ext) (s : List Char)
    (hw : Spec.C15.isWord (Spec.C15.splitOp s).2 = true)
    (hdate : ext.dateParse (Spec.C15.splitOp s).2 = none) :
    parseText ext s =
      some ⟨toBin (Spec.C15.opOfPrefix (Spec.C15.splitOp s).1),
            (Spec.C15.opOfPrefix (Spec.C15.splitOp s).1).ordering, .text (Spec.C15.splitOp s).2⟩ := by
  apply Lemmas.C15.parse_word <;> assumption

/-- **refinement of the parser**: whenever the statement assigns a criterion to a text, the code's
    parser produces that operator, the ordering flag of the operator, and an operand of that class -/
theorem parse_refines (ext : Ext) (s : List Char) (op : Spec.C15.Op) (k : Cls)
    (h : Spec.C15.critOfText s = some (op, k))
    (hdate : ext.dateParse (Spec.C15.splitOp s).2 = none) :
    ∃ v, cls v = some k ∧ parseText ext s = some ⟨toBin op, op.ordering, v⟩ := by
  apply Lemmas.C15.parse_refines <;> assumption

/-- **the closure of a text criterion decides the statement's predicate**: on a cell of class `x`
    it returns a (Python or Excel) boolean whose truth is `holds op k x`; an ordering criterion
    rejects cells of another type before comparing. -/
theorem checkText_spec (ext : Ext) (op : Spec.C15.Op) {v probe : S} {k x : Cls}
    (hv : cls v = some k) (hp : cls probe = some x) :
    ∃ r, checkText ext ⟨toBin op, op.ordering, v⟩ probe = .ok r ∧
      r.truthy = Spec.C15.holds op k x ∧ CheckR.clean r := by
  apply Lemmas.C15.checkText_spec <;> assumption

/-- the closure of a plain-value criterion is equality with that value -/
theorem checkPlain_spec {crit probe : S} {k x : Cls} (hv : cls crit = some k) (hp : cls probe = some x) :
    ∃ r, checkPlain crit probe = .ok r ∧ r.truthy = Spec.C15.holds .eq k x ∧ CheckR.clean r := by
  apply Lemmas.C15.checkPlain_spec <;> assumption

/-- **countif_spec (text criterion)**: for every criterion text the statement gives a meaning to and
    every column of numbers/texts, COUNTIF is the number of cells for which the criterion holds —
    the length of the filter by the criterion predicate. -/
theorem countif_spec (ext : Ext) (s : List Char) (op : Spec.C15.Op) (k : Cls)
    (h : Spec.C15.critOfText s = some (op, k))
    (hdate : ext.dateParse (Spec.C15.splitOp s).2 = none)
    (cells : List S) (hc : ∀ c ∈ cells, cls c ≠ none) :
    COUNTIF ext cells (.text s) = .ok (.num (.int (Spec.C15.countif op k (cells.filterMap cls)))) := by
  apply Lemmas.C15.countif_spec <;> assumption

/-- **countif_spec (plain value)**: a criterion that is a value counts the cells equal to it -/
theorem countif_value (ext : Ext) (crit : S) (k : Cls) (hk : cls crit = some k) (ht : ∀ t, crit ≠ .text t)
    (cells : List S) (hc : ∀ c ∈ cells, cls c ≠ none) :
    COUNTIF ext cells crit = .ok (.num (.int (Spec.C15.countif .eq k (cells.filterMap cls)))) := by
  apply Lemmas.C15.countif_value <;> assumption

/-- **the regrouping loop recovers the (range, criterion) pairs** when every range has the length of
    the first one -/
theorem regroup_pairs (n : Nat) (more : List (List S × S)) (hlen : ∀ p ∈ more, p.1.length = n)
    (checks : List S) (ranges : List (List S)) :
    regroup n (flattenPairs more) checks ranges [] 0 =
      (checks.reverse ++ more.map (·.2), ranges.reverse ++ more.map (·.1)) := by
  apply Lemmas.C15.regroup_pairs <;> assumption

/-- **countifs_conj**: for ranges of one common length and criteria the statement gives a meaning to,
    COUNTIFS — through the flattening of its varargs and the regrouping loop — is the number of
    positions at which every criterion holds on its own range. -/
theorem countifs_conj (ext : Ext) (hdate : ∀ t, ext.dateParse t = none)
    (r1 : List S) (c1 : S) (more : List (List S × S))
    (hlen : ∀ p ∈ more, p.1.length = r1.length)
    (sp : List (List Cls × Spec.C15.Op × Cls))
    (h : AllPairs ((r1, c1) :: more) sp) :
    COUNTIFS ext r1 c1 (flattenPairs more) = .ok (.num (.int (Spec.C15.countifs sp))) := by
  apply Lemmas.C15.countifs_conj <;> assumption

/-- **refinement, exact MATCH**: on a column of classified cells MATCH(key, column, 0) is the
    statement's `matchExact`: the 1-based position of the first equal element, #N/A if none. -/
theorem match_exact_refines {key : S} {k : Cls} (hk : cls key = some k) (cells : List S) (xs : List Cls)
    (hne : cells ≠ []) (hc : cells.map cls = xs.map some) :
    MATCH key (cells.map fun x => [x]) (.num (.int 0)) =
      .ok (match Spec.C15.matchExact k xs with
           | some p => .num (.int (p : Int))
           | none => .err .na) := by
  apply Lemmas.C15.match_exact_refines <;> assumption

/-- **match_exact_first**: if exact MATCH returns position `p`, element `p` equals the key and no
    earlier element does; if it returns #N/A, no element equals the key. (Equality is that of the one
    total order: numbers numerically, texts case-insensitively.) -/
theorem match_exact_first {key : S} {k : Cls} (hk : cls key = some k) (cells : List S) (xs : List Cls)
    (hne : cells ≠ []) (hc : cells.map cls = xs.map some) :
    (∀ p : Nat, MATCH key (cells.map fun x => [x]) (.num (.int 0)) = .ok (.num (.int p)) →
        1 ≤ p ∧ xs[p - 1]? = some k ∧ ∀ i, i < p - 1 → xs[i]? ≠ some k) ∧
    (MATCH key (cells.map fun x => [x]) (.num (.int 0)) = .ok (.err .na) → ∀ x ∈ xs, x ≠ k) ∧
    ((∃ p : Nat, MATCH key (cells.map fun x => [x]) (.num (.int 0)) = .ok (.num (.int p))) ∨
      MATCH key (cells.map fun x => [x]) (.num (.int 0)) = .ok (.err .na)) := by
  apply Lemmas.C15.match_exact_first <;> assumption

/-- **the sortedness test passes on ascending classified data** (whatever its length): `sorted`
    finds one non-descending run and returns the very same elements in the same places. -/
theorem sortedNe_ascending (cells : List S) (xs : List Cls) (hc : cells.map cls = xs.map some)
    (hasc : Spec.C15.ascending xs = true) : sortedNe false cells = .ok (some false) := by
  apply Lemmas.C15.sortedNe_ascending <;> assumption

/-- **refinement, approximate MATCH**: on an ascending column of classified cells MATCH(key, column, 1)
    (and MATCH(key, column)) is the last position whose value does not exceed the key, #N/A if there
    is none. -/
theorem match_approx_refines {key : S} {k : Cls} (hk : cls key = some k) (cells : List S) (xs : List Cls)
    (hne : cells ≠ []) (hc : cells.map cls = xs.map some) (hasc : Spec.C15.ascending xs = true) :
    MATCH key (cells.map fun x => [x]) (.num (.int 1)) =
      .ok (match Spec.C15.lastLe k xs with
           | 0 => .err .na
           | p + 1 => .num (.int ((p + 1 : Nat) : Int))) := by
  apply Lemmas.C15.match_approx_refines <;> assumption

/-- **match_approx_last_le**: on ascending data, if approximate MATCH returns position `p` then
    element `p` does not exceed the key and every later element does; if it returns #N/A every element
    exceeds the key; and it returns one of the two. -/
theorem match_approx_last_le {key : S} {k : Cls} (hk : cls key = some k) (cells : List S) (xs : List Cls)
    (hne : cells ≠ []) (hc : cells.map cls = xs.map some) (hasc : Spec.C15.ascending xs = true) :
    (∀ p : Nat, MATCH key (cells.map fun x => [x]) (.num (.int 1)) = .ok (.num (.int p)) →
        1 ≤ p ∧ (∃ x, xs[p - 1]? = some x ∧ Spec.C15.leb x k = true) ∧
        ∀ j y, p - 1 < j → xs[j]? = some y → Spec.C15.leb y k = false) ∧
    (MATCH key (cells.map fun x => [x]) (.num (.int 1)) = .ok (.err .na) →
        ∀ x ∈ xs, Spec.C15.leb x k = false) ∧
    ((∃ p : Nat, MATCH key (cells.map fun x => [x]) (.num (.int 1)) = .ok (.num (.int p))) ∨
      MATCH key (cells.map fun x => [x]) (.num (.int 1)) = .ok (.err .na)) := by
  apply Lemmas.C15.match_approx_last_le <;> assumption

/-- **vlookup_spec**: for a rectangular table with classified key cells and a whole column index,
    VLOOKUP(key, table, col, FALSE) is the statement's lookup: the requested column of the first row
    whose key equals the lookup value, #N/A if there is none, #VALUE! for a column outside the table. -/
theorem vlookup_spec {key : S} {k : Cls} (hk : cls key = some k) (rows : List (List S))
    (sp : List (Cls × List S)) (hkr : KeyedRows rows sp) (w : Nat) (hw : ∀ row ∈ rows, row.length = w)
    (hne : rows ≠ []) (c : Int) :
    VLOOKUP key rows (.int c) false =
      (match Spec.C15.vlookup k sp w c with
       | .value v => .ok v
       | .na => .ok (.err .na)
       | .colError => .ok (.err .value)) := by
  apply Lemmas.C15.vlookup_spec <;> assumption

/-- **vlookup_col_range**: a column index below 1 or beyond the width of the table is `#VALUE!`,
    whatever the table contains (also for fractional indices, which are truncated first). -/
theorem vlookup_col_range (key : S) (hkey : ∀ e, key ≠ .err e) (r0 : List S) (rows : List (List S))
    (colIndex : Num) (h : truncNum colIndex < 1 ∨ truncNum colIndex > r0.length) :
    VLOOKUP key (r0 :: rows) colIndex false = .ok (.err .value) := by
  apply Lemmas.C15.vlookup_col_range <;> assumption

/-- **choose_spec**: CHOOSE(i, v1..vn) with a whole index is v_i, and #VALUE! when i is outside 1..n
    (n ≤ 254, the number of arguments Excel allows). -/
theorem choose_spec (ext : Ext) (i : Int) (values : List S) (hlen : values.length ≤ 254) :
    CHOOSE ext (.num (.int i)) values =
      (match Spec.C15.choose i values with
       | some v => .ok v
       | none => .ok (.err .value)) := by
  apply Lemmas.C15.choose_spec <;> assumption

/-- an index below 1 — also a fractional one such as 0.5 — is #VALUE! -/
theorem choose_below_one (ext : Ext) (n : Num) (values : List S) (h : n.toRat < 1) :
    CHOOSE ext (.num n) values = .ok (.err .value) := by
  apply Lemmas.C15.choose_below_one <;> assumption

/-- a fractional index inside 1..n selects the value at the truncated position -/
theorem choose_fractional (ext : Ext) (q : Rat) (values : List S) (hlen : values.length ≤ 254)
    (h1 : 1 ≤ q) (h2 : q ≤ (values.length : Rat)) :
    CHOOSE ext (.num (.flt q)) values =
      (match Spec.C15.choose q.floor values with
       | some v => .ok v
       | none => .ok (.err .value)) := by
  apply Lemmas.C15.choose_fractional <;> assumption

/-! ## non-vacuity: the hypotheses of the theorems are met by ordinary inputs -/

-- the statement gives these criteria a meaning (hypothesis `critOfText s = some …`)
example : Spec.C15.critOfText "<-1".toList = some (.lt, .number (-1)) := by decide
example : Spec.C15.critOfText ">=-2.5".toList = some (.ge, .number (-5/2)) := by decide +kernel
example : Spec.C15.critOfText "<>Apple pie".toList = some (.ne, .text "APPLE PIE".toList) := by decide
example : Spec.C15.critOfText "apple".toList = some (.eq, .text "APPLE".toList) := by decide
example : Spec.C15.critOfText "true".toList = none := by decide          -- not a word of the statement
example : Spec.C15.critOfText " 1".toList = none := by decide            -- nor a numeral
-- numerals and words of the grammar (hypotheses of `parse_numeric` / `parse_word`)
example : Spec.C15.number? "-2.5".toList = some (-5/2) := by decide +kernel
example : Spec.C15.number? "10".toList = some 10 := by decide
example : Spec.C15.isWord "kiwi fruit".toList = true := by decide
example : (Spec.C15.splitOp "<=kiwi".toList) = ("<=".toList, "kiwi".toList) := by decide
-- classified cells and columns (hypotheses `cls c ≠ none`, `cells.map cls = xs.map some`)
example : [S.num (.int 3), S.text "a".toList].map cls = [Cls.number 3, Cls.text "A".toList].map some := by
  simp [cls, Num.toRat, upperAscii]
-- ascending data with a duplicate (hypothesis of the approximate-MATCH theorems)
example : Spec.C15.ascending [.number 10, .number 20, .number 20, .text "A".toList] = true := by decide
-- a keyed table and pairs
example : KeyedRows [[.num (.int 1), .text "a".toList]] [(.number 1, [.num (.int 1), .text "a".toList])] := by
  simp [KeyedRows, cls, Num.toRat]
example : AllPairs [([.num (.int 1)], .text ">0".toList)] [([.number 1], .gt, .number 0)] :=
  .cons ⟨by decide, by simp [cls, Num.toRat]⟩ .nil
-- the date parser of the driver accepts nothing (hypothesis `hdate`)
example : ∀ t, Ext.none.dateParse t = none := fun _ => rfl

/-! ## the model on concrete inputs: the repaired defects stay repaired -/

-- D29: a signed operand after the operator is a number, not text compared for equality
example : parseText Ext.none "<-1".toList = some ⟨.lt, true, .num (.int (-1))⟩ := by decide
example : parseText Ext.none ">=-2.5".toList = some ⟨.ge, true, .num (.flt (-5/2))⟩ := by decide +kernel
example : COUNTIF Ext.none [.num (.int 1), .num (.int (-2)), .text "a".toList] (.text "<-1".toList)
    = .ok (.num (.int 1)) := by decide
-- D30: an ordering criterion only matches cells of its operand's own type
example : COUNTIF Ext.none [.num (.int 2), .text "apple".toList, .bool true] (.text ">1".toList)
    = .ok (.num (.int 1)) := by decide
example : COUNTIF Ext.none [.num (.int 2), .text "apple".toList, .text "B".toList] (.text ">=b".toList)
    = .ok (.num (.int 1)) := by decide
-- texts match case-insensitively; `<>` matches every other cell
example : COUNTIF Ext.none [.text "Apple".toList, .text "APPLE".toList, .num (.int 1)] (.text "apple".toList)
    = .ok (.num (.int 2)) := by decide
example : COUNTIF Ext.none [.text "Apple".toList, .text "pear".toList, .num (.int 1)] (.text "<>apple".toList)
    = .ok (.num (.int 2)) := by decide
-- COUNTIFS through the flattened varargs: (1,2,3) ">1" and (1,2,3) "<3" agree at one position
example : COUNTIFS Ext.none [.num (.int 1), .num (.int 2), .num (.int 3)] (.text ">1".toList)
    [.num (.int 1), .num (.int 2), .num (.int 3), .text "<3".toList] = .ok (.num (.int 1)) := by decide
-- unequal lengths are outside the statement; the code drops a shorter later range with its criterion …
example : COUNTIFS Ext.none [.num (.int 1), .num (.int 2), .num (.int 3)] (.text ">1".toList)
    [.num (.int 1), .num (.int 2), .text "<2".toList] = .ok (.num (.int 2)) := by decide
-- … and takes the surplus cell of a longer one as its criterion
example : COUNTIFS Ext.none [.num (.int 1), .num (.int 2)] (.text ">0".toList)
    [.num (.int 5), .num (.int 2), .num (.int 2), .text "<9".toList] = .ok (.num (.int 1)) := by decide
-- D31: VLOOKUP returns the requested column; column 0 is an error
example : VLOOKUP (.text "k2".toList)
    [[.text "k1".toList, .num (.int 1), .num (.int 2)], [.text "k2".toList, .num (.int 3), .num (.int 4)]]
    (.int 3) false = .ok (.num (.int 4)) := by decide
example : VLOOKUP (.text "k2".toList) [[.text "k2".toList, .num (.int 3)]] (.int 0) false = .ok (.err .value) := by
  decide
-- D1502: duplicated key → first row; column 1 → the key column; text keys match case-insensitively
example : VLOOKUP (.num (.int 2))
    [[.num (.int 1), .text "a".toList], [.num (.int 2), .text "c".toList], [.num (.int 2), .text "e".toList]]
    (.int 2) false = .ok (.text "c".toList) := by decide
example : VLOOKUP (.text "K".toList) [[.text "k".toList, .num (.int 7)]] (.int 1) false = .ok (.text "k".toList) := by
  decide
-- D32 / D1503: approximate MATCH past the end and on a run of equal values
example : MATCH (.num (.int 45)) [[.num (.int 10)], [.num (.int 20)], [.num (.int 30)], [.num (.int 40)]]
    (.num (.int 1)) = .ok (.num (.int 4)) := by decide
example : MATCH (.num (.int 20)) [[.num (.int 10)], [.num (.int 20)], [.num (.int 20)], [.num (.int 40)]]
    (.num (.int 1)) = .ok (.num (.int 3)) := by decide
example : MATCH (.num (.int 20)) [[.num (.int 10)], [.num (.int 20)], [.num (.int 20)], [.num (.int 40)]]
    (.num (.int 0)) = .ok (.num (.int 2)) := by decide
-- match_type -1 as coded (outside the statement): first equal, else the last value still ≥ the key
example : MATCH (.num (.int 25)) [[.num (.int 40)], [.num (.int 30)], [.num (.int 20)]] (.num (.int (-1)))
    = .ok (.num (.int 2)) := by decide
-- outside the statement, as Python performs it: `sorted` compares every element, so an error cell
-- behind a descent raises (the `x < error` comparison fails on the missing `_sort_key`) …
example : MATCH (.num (.int 366)) [[.num (.int 6)], [.blank], [.err .num]] (.num (.int 1))
    = .crash .attributeError := by decide
-- … and list `!=` compares with `==`, under which a blank equals FALSE: the reversed strictly
-- descending run (blank, "1e2", FALSE) counts as equal to the data and the scan returns 3
example : MATCH (.bool false) [[.bool false], [.text "1e2".toList], [.blank]] (.num (.int 1))
    = .ok (.num (.int 3)) := by decide
-- unsorted numbers: one binary insertion, the lists differ, #N/A
example : MATCH (.num (.int 2)) [[.num (.int 3)], [.num (.int 1)], [.num (.int 2)]] (.num (.int 1))
    = .ok (.err .na) := by decide
-- a row vector is an AssertionError of the code, an empty array an IndexError (outside the statement)
example : MATCH (.num (.int 2)) [[.num (.int 1), .num (.int 2)]] (.num (.int 0)) = .crash .assertion := by decide
-- D1501: CHOOSE with an index between 0 and 1
example : CHOOSE Ext.none (.num (.flt (1/2))) [.text "a".toList, .text "b".toList] = .ok (.err .value) := by
  decide +kernel
example : CHOOSE Ext.none (.num (.int 2)) [.text "a".toList, .text "b".toList] = .ok (.text "b".toList) := by
  decide +kernel
example : CHOOSE Ext.none (.num (.int 3)) [.text "a".toList, .text "b".toList] = .ok (.err .value) := by
  decide +kernel

end XlVerif.Props.C15
