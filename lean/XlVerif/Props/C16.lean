/-
  C16 — math and rounding functions.

  Part 1: what the reference semantics (`Spec.C16`) guarantees, for EVERY rational `x` and EVERY digit
          count `d : Int` (positive or negative): the statement's words, proved of the definitions.
  Part 2: the model of math.py (`Model.C16`) refines the reference semantics: for every finite
          decimal (sign, coefficient, exponent) and every digit count, whenever the code returns a
          value it is the reference value; plus the corollaries on the model itself.
  Part 3: elementary functions: argument order of ATAN2, sign of MOD, exact FACT / FACTDOUBLE / ABS /
          SIGN, and the domain table (`domain_total`).

  Guarded (`…_partial`) theorems: EVEN, CEILING and FLOOR refine the reference only when the float
  quotient does not underflow to zero (finding D1605, modelled; kernel-checked counter-examples next
  to them).  CEILING / FLOOR are modelled over ideal reals: finding D37 (binary float quotient /
  product) lives in IEEE arithmetic and is reported by witness in the correspondence.

  The correspondence check (harness/props/c16.py) ties `Model.C16` to the running code.
-/
import XlVerif.Model.C16
import XlVerif.Spec.C16
import XlVerif.Lemmas.C16
import XlVerif.Lemmas.C16Dec
namespace XlVerif.Props.C16
open XlVerif XlVerif.Spec.C16 XlVerif.Lemmas.C16

/-! ## Part 1 — the reference semantics says what the statement says -/

/-- ROUND: the result is a multiple of `10^-d`, at most half a unit away, and a tie goes away
    from zero.  (∀ x : ℚ, ∀ d : ℤ) -/
theorem round_spec (x : Rat) (d : Int) :
    (∃ k : Int, round x d = (k : Rat) / pow10 d) ∧
    |x - round x d| ≤ 1/2 / pow10 d ∧
    (|x - round x d| = 1/2 / pow10 d → |x| < |round x d|) := by
  have hp := pow10_pos d
  refine ⟨⟨_, rfl⟩, ?_, ?_⟩
  · unfold round
    rw [abs_sub_scaled x _ hp]
    exact div_le_div_of_nonneg_right (nearAwayZ_dist _) (le_of_lt hp)
  · unfold round
    intro h
    rw [abs_sub_scaled x _ hp] at h
    have h' : |x * pow10 d - (nearAwayZ (x * pow10 d) : Rat)| = 1/2 := by
      field_simp at h ⊢; linarith
    have := nearAwayZ_tie _ h'
    rw [abs_div, abs_of_pos hp, lt_div_iff₀ hp]
    calc |x| * pow10 d = |x * pow10 d| := by rw [abs_mul, abs_of_pos hp]
      _ < _ := this

/-- ROUND is a nearest multiple: no multiple of `10^-d` is closer. -/
theorem round_nearest (x : Rat) (d : Int) (k : Int) :
    |x - round x d| ≤ |x - (k : Rat) / pow10 d| := by
  have hp := pow10_pos d
  unfold round
  rw [abs_sub_scaled x _ hp, abs_sub_scaled x _ hp]
  exact div_le_div_of_nonneg_right (nearAwayZ_nearest _ k) (le_of_lt hp)

/-- ROUNDUP: a multiple of `10^-d`, on the far side of `x` from zero, less than one unit away. -/
theorem roundUp_spec (x : Rat) (d : Int) :
    (∃ k : Int, roundUp x d = (k : Rat) / pow10 d) ∧
    (0 ≤ x → x ≤ roundUp x d ∧ roundUp x d < x + 1 / pow10 d) ∧
    (x < 0 → roundUp x d ≤ x ∧ x - 1 / pow10 d < roundUp x d) := by
  have hp := pow10_pos d
  refine ⟨⟨_, rfl⟩, ?_, ?_⟩
  · intro hx
    have := awayZ_nonneg (mul_nonneg hx (le_of_lt hp))
    unfold roundUp
    constructor
    · rw [le_div_iff₀ hp]; exact this.1
    · rw [div_lt_iff₀ hp]; field_simp; linarith [this.2]
  · intro hx
    have := awayZ_neg (mul_neg_of_neg_of_pos hx hp)
    unfold roundUp
    constructor
    · rw [div_le_iff₀ hp]; exact this.1
    · rw [lt_div_iff₀ hp]; field_simp; linarith [this.2]

/-- ROUNDDOWN / TRUNC: a multiple of `10^-d`, between zero and `x`, less than one unit away. -/
theorem roundDown_spec (x : Rat) (d : Int) :
    (∃ k : Int, roundDown x d = (k : Rat) / pow10 d) ∧
    (0 ≤ x → 0 ≤ roundDown x d ∧ roundDown x d ≤ x ∧ x < roundDown x d + 1 / pow10 d) ∧
    (x < 0 → roundDown x d ≤ 0 ∧ x ≤ roundDown x d ∧ roundDown x d - 1 / pow10 d < x) := by
  have hp := pow10_pos d
  refine ⟨⟨_, rfl⟩, ?_, ?_⟩
  · intro hx
    have := truncZ_nonneg (mul_nonneg hx (le_of_lt hp))
    unfold roundDown
    refine ⟨div_nonneg this.1 (le_of_lt hp), ?_, ?_⟩
    · rw [div_le_iff₀ hp]; exact this.2.1
    · rw [← sub_lt_iff_lt_add, lt_div_iff₀ hp]; field_simp; linarith [this.2.2]
  · intro hx
    have := truncZ_neg (mul_neg_of_neg_of_pos hx hp)
    unfold roundDown
    refine ⟨div_nonpos_of_nonpos_of_nonneg this.1 (le_of_lt hp), ?_, ?_⟩
    · rw [le_div_iff₀ hp]; exact this.2.1
    · rw [sub_lt_iff_lt_add, div_lt_iff₀ hp]; field_simp; linarith [this.2.2]

theorem trunc_eq_roundDown (x : Rat) (d : Int) : trunc x d = roundDown x d := rfl

/-- INT is the floor: the greatest integer not above `x`. -/
theorem int_spec (x : Rat) :
    ((int x : Int) : Rat) ≤ x ∧ x < (int x : Rat) + 1 ∧ ∀ k : Int, (k : Rat) ≤ x → k ≤ int x :=
  ⟨floor_le' x, lt_floor_add_one' x, fun _ h => Rat.le_floor_iff.mpr h⟩

/-- EVEN: an even integer, on the far side of `x` from zero, less than two away. -/
theorem even_spec (x : Rat) :
    (∃ k : Int, even x = 2 * k) ∧
    (0 ≤ x → x ≤ (even x : Rat) ∧ (even x : Rat) < x + 2) ∧
    (x < 0 → (even x : Rat) ≤ x ∧ x - 2 < (even x : Rat)) := by
  refine ⟨⟨_, rfl⟩, ?_, ?_⟩
  · intro hx
    have := awayZ_nonneg (show (0:Rat) ≤ x / 2 by positivity)
    unfold even; push_cast
    constructor <;> linarith [this.1, this.2]
  · intro hx
    have := awayZ_neg (show x / 2 < 0 by linarith)
    unfold even; push_cast
    constructor <;> linarith [this.1, this.2]

/-- EVEN leaves even integers alone and nothing even lies strictly between `x` and `EVEN(x)`. -/
theorem even_least (x : Rat) (k : Int) :
    (0 ≤ x → x ≤ ((2 * k : Int) : Rat) → even x ≤ 2 * k) ∧
    (x < 0 → ((2 * k : Int) : Rat) ≤ x → 2 * k ≤ even x) := by
  constructor
  · intro hx hk
    have hn : ¬ x / 2 < 0 := not_lt.mpr (by positivity)
    have : (x / 2).ceil ≤ k := Rat.ceil_le_iff.mpr (by push_cast at hk; linarith)
    simp only [even, awayZ, hn, if_false]; omega
  · intro hx hk
    have hn : x / 2 < 0 := by linarith
    have : (-(x / 2)).ceil ≤ -k := Rat.ceil_le_iff.mpr (by push_cast at hk ⊢; linarith)
    simp only [even, awayZ, hn, if_true]; omega

/-! idempotence: rounding a rounded value changes nothing -/

theorem round_idem (x : Rat) (d : Int) : round (round x d) d = round x d := by
  unfold round; rw [scaled_mul _ (pow10_pos d), nearAwayZ_int]
theorem roundUp_idem (x : Rat) (d : Int) : roundUp (roundUp x d) d = roundUp x d := by
  unfold roundUp; rw [scaled_mul _ (pow10_pos d), awayZ_int]
theorem roundDown_idem (x : Rat) (d : Int) : roundDown (roundDown x d) d = roundDown x d := by
  unfold roundDown; rw [scaled_mul _ (pow10_pos d), truncZ_int]
theorem int_idem (x : Rat) : int ((int x : Int) : Rat) = int x := Rat.floor_intCast _
theorem even_idem (x : Rat) : even ((even x : Int) : Rat) = even x := by
  unfold even
  have : ((2 * awayZ (x / 2) : Int) : Rat) / 2 = ((awayZ (x / 2) : Int) : Rat) := by
    push_cast; ring
  rw [this, awayZ_int]

/-! monotonicity: a larger argument never gives a smaller result -/

theorem round_mono {x y : Rat} (d : Int) (h : x ≤ y) : round x d ≤ round y d := by
  have hp := pow10_pos d
  unfold round
  apply div_le_div_of_nonneg_right _ (le_of_lt hp)
  exact_mod_cast nearAwayZ_mono (mul_le_mul_of_nonneg_right h (le_of_lt hp))
theorem roundUp_mono {x y : Rat} (d : Int) (h : x ≤ y) : roundUp x d ≤ roundUp y d := by
  have hp := pow10_pos d
  unfold roundUp
  apply div_le_div_of_nonneg_right _ (le_of_lt hp)
  exact_mod_cast awayZ_mono (mul_le_mul_of_nonneg_right h (le_of_lt hp))
theorem roundDown_mono {x y : Rat} (d : Int) (h : x ≤ y) : roundDown x d ≤ roundDown y d := by
  have hp := pow10_pos d
  unfold roundDown
  apply div_le_div_of_nonneg_right _ (le_of_lt hp)
  exact_mod_cast truncZ_mono (mul_le_mul_of_nonneg_right h (le_of_lt hp))
theorem int_mono {x y : Rat} (h : x ≤ y) : int x ≤ int y := floor_mono h
theorem even_mono {x y : Rat} (h : x ≤ y) : even x ≤ even y := by
  unfold even
  have := awayZ_mono (show x / 2 ≤ y / 2 by linarith)
  omega

/-! CEILING / FLOOR: the least / greatest multiple of a positive significance; with a negative
    significance (number ≤ 0) Excel rounds CEILING away from zero and FLOOR toward zero. -/

theorem ceiling_pos (x s : Rat) (hs : 0 < s) :
    x ≤ ceiling x s ∧ ceiling x s < x + s ∧ ∀ k : Int, x ≤ s * k → ceiling x s ≤ s * k := by
  unfold ceiling
  have h1 := le_ceil' (x / s)
  have h2 := ceil_lt_add_one' (x / s)
  refine ⟨?_, ?_, ?_⟩
  · have := (div_le_iff₀ hs).mp h1; linarith
  · have : ((x / s).ceil : Rat) * s < (x / s + 1) * s := mul_lt_mul_of_pos_right h2 hs
    have e : (x / s + 1) * s = x + s := by field_simp
    linarith
  · intro k hk
    have : (x / s).ceil ≤ k := Rat.ceil_le_iff.mpr (by rw [div_le_iff₀ hs]; linarith)
    have : ((x / s).ceil : Rat) ≤ k := by exact_mod_cast this
    exact mul_le_mul_of_nonneg_left this (le_of_lt hs)

theorem floor_pos (x s : Rat) (hs : 0 < s) :
    floor x s ≤ x ∧ x - s < floor x s ∧ ∀ k : Int, s * k ≤ x → s * k ≤ floor x s := by
  unfold floor
  have h1 := floor_le' (x / s)
  have h2 := lt_floor_add_one' (x / s)
  refine ⟨?_, ?_, ?_⟩
  · have := (le_div_iff₀ hs).mp h1; linarith
  · have : x / s * s < (((x / s).floor : Rat) + 1) * s := mul_lt_mul_of_pos_right h2 hs
    have e : x / s * s = x := by field_simp
    linarith
  · intro k hk
    have : k ≤ (x / s).floor := Rat.le_floor_iff.mpr (by rw [le_div_iff₀ hs]; linarith)
    have : (k : Rat) ≤ (x / s).floor := by exact_mod_cast this
    exact mul_le_mul_of_nonneg_left this (le_of_lt hs)

/-- negative significance: CEILING is the greatest multiple `≤ x` (away from zero for `x ≤ 0`) -/
theorem ceiling_neg (x s : Rat) (hs : s < 0) :
    ceiling x s ≤ x ∧ x + s < ceiling x s ∧ ∀ k : Int, s * k ≤ x → s * k ≤ ceiling x s := by
  unfold ceiling
  have h1 := le_ceil' (x / s)
  have h2 := ceil_lt_add_one' (x / s)
  refine ⟨?_, ?_, ?_⟩
  · have := (div_le_iff_of_neg hs).mp h1; linarith
  · have : (x / s + 1) * s < ((x / s).ceil : Rat) * s := mul_lt_mul_of_neg_right h2 hs
    have hne : s ≠ 0 := ne_of_lt hs
    have e : (x / s + 1) * s = x + s := by field_simp
    linarith
  · intro k hk
    have : (x / s).ceil ≤ k := Rat.ceil_le_iff.mpr (by rw [div_le_iff_of_neg hs]; linarith)
    have : ((x / s).ceil : Rat) ≤ k := by exact_mod_cast this
    exact mul_le_mul_of_nonpos_left this (le_of_lt hs)

/-- negative significance: FLOOR is the least multiple `≥ x` (toward zero for `x ≤ 0`) -/
theorem floor_neg (x s : Rat) (hs : s < 0) :
    x ≤ floor x s ∧ floor x s < x - s ∧ ∀ k : Int, x ≤ s * k → floor x s ≤ s * k := by
  unfold floor
  have h1 := floor_le' (x / s)
  have h2 := lt_floor_add_one' (x / s)
  refine ⟨?_, ?_, ?_⟩
  · have := (le_div_iff_of_neg hs).mp h1; linarith
  · have : (((x / s).floor : Rat) + 1) * s < x / s * s := mul_lt_mul_of_neg_right h2 hs
    have hne : s ≠ 0 := ne_of_lt hs
    have e : x / s * s = x := by field_simp
    linarith
  · intro k hk
    have : k ≤ (x / s).floor := Rat.le_floor_iff.mpr (by rw [le_div_iff_of_neg hs]; linarith)
    have : (k : Rat) ≤ (x / s).floor := by exact_mod_cast this
    exact mul_le_mul_of_nonpos_left this (le_of_lt hs)

/-- an exact multiple is returned unchanged -/
theorem ceiling_floor_multiple (s : Rat) (hs : s ≠ 0) (k : Int) :
    ceiling (s * k) s = s * k ∧ floor (s * k) s = s * k := by
  have : s * (k : Rat) / s = k := by field_simp
  unfold ceiling floor
  rw [this, Rat.ceil_intCast, Rat.floor_intCast]
  exact ⟨rfl, rfl⟩


/-! ## Part 2 — the model of math.py refines the reference semantics

`x : Dec` is ANY finite decimal `(sign, coefficient, exponent)` – in particular every
`decimal.Decimal(str(number))` – and `nd : Num` ANY digit count (int or float, either sign). -/

section Refinement
open XlVerif.Model.C16

/-- `_round(number, num_digits, mode)`: whenever it returns, it returns the reference rounding. -/
theorem pyRound_refines (mode : Mode) (x : Dec) (nd : Num) (v : RVal)
    (h : pyRound mode x nd = .val v) : v.toRat = specOf mode x.toRat (pyInt nd) := by
  unfold pyRound at h
  split at h <;> try (cases h; done)
  rename_i d hq
  have := val_inj h; subst this
  have := quantize_toRat _ _ _ _ _ hq
  simpa [RVal.toRat] using this

/-- `_round` returns a value or raises `decimal.InvalidOperation` (precision 700 exceeded); -/
theorem pyRound_outcome (mode : Mode) (x : Dec) (nd : Num) :
    (∃ v, pyRound mode x nd = .val v) ∨ pyRound mode x nd = .crash .invalidOperation := by
  unfold pyRound
  rcases quantize_outcome roundPrec mode x (-(pyInt nd)) with ⟨r, hr⟩ | hr
  · left; exact ⟨.dec r, by rw [hr]⟩
  · right; rw [hr]

/-- … and it does return for every decimal of up to 17 significant digits with an exponent up to
    400 and every digit count up to 250 (the statement's domain is 15 digits, the double range,
    digit counts -10…10). -/
theorem pyRound_total (mode : Mode) (x : Dec) (nd : Num)
    (hc : x.coef < 10 ^ 17) (he : x.exp ≤ 400) (hd : pyInt nd ≤ 250) :
    ∃ v, pyRound mode x nd = .val v := by
  obtain ⟨r, hr⟩ := quantize_total mode x (-(pyInt nd)) hc he (by omega)
  exact ⟨.dec r, by unfold pyRound; rw [hr]⟩

example : ∃ v, pyRound .halfUp ⟨true, 2675, -3⟩ (.int 2) = .val v :=
  pyRound_total _ _ _ (by decide) (by decide) (by decide)

/-- D52 (fixed by raising the context precision to 700): the precision is finite, so far outside
    the domain the code still raises – `ROUND(1e308, 392)`. -/
example : ROUND ⟨false, 1, 308⟩ (.int 392) = .crash .invalidOperation := by decide +kernel
example : ROUND ⟨false, 1, 22⟩ (.int 10) = .val (.dec ⟨false, 10 ^ 32, -10⟩) := by decide +kernel

theorem ROUND_refines (x : Dec) (nd : Num) (v : RVal) (h : ROUND x nd = .val v) :
    v.toRat = round x.toRat (pyInt nd) := pyRound_refines .halfUp x nd v h
theorem ROUNDUP_refines (x : Dec) (nd : Num) (v : RVal) (h : ROUNDUP x nd = .val v) :
    v.toRat = roundUp x.toRat (pyInt nd) := pyRound_refines .up x nd v h
theorem ROUNDDOWN_refines (x : Dec) (nd : Num) (v : RVal) (h : ROUNDDOWN x nd = .val v) :
    v.toRat = roundDown x.toRat (pyInt nd) := pyRound_refines .down x nd v h

example : ROUND ⟨false, 2675, -3⟩ (.int 2) = .val (.dec ⟨false, 268, -2⟩) := by decide +kernel
example : ROUND ⟨true, 25, -1⟩ (.int 0) = .val (.dec ⟨true, 3, 0⟩) := by decide +kernel
example : ROUND ⟨false, 12345, -1⟩ (.int (-2)) = .val (.dec ⟨false, 12, 2⟩) := by decide +kernel

theorem roundUp_zero_neg {x : Rat} (hx : x < 0) : roundUp x 0 = (x.floor : Rat) := by
  unfold roundUp; rw [pow10_zero, mul_one, div_one]
  simp only [awayZ, hx, if_true]
  rw [Rat.ceil_eq_neg_floor_neg]; simp
theorem roundDown_zero_nonneg {x : Rat} (hx : 0 ≤ x) : roundDown x 0 = (x.floor : Rat) := by
  unfold roundDown; rw [pow10_zero, mul_one, div_one]
  simp only [truncZ, not_lt.mpr hx, if_false]

/-- INT is the floor (ROUND_UP below zero, ROUND_DOWN from zero on). -/
theorem INT_refines (x : Dec) (v : RVal) (h : INT x = .val v) : v.toRat = (int x.toRat : Rat) := by
  unfold INT at h
  split at h
  · rename_i hn
    have hx := (isNeg_iff x).mp hn
    have := pyRound_refines _ _ _ _ h
    rw [this]; exact roundUp_zero_neg hx
  · rename_i hn
    have hx : 0 ≤ x.toRat := by
      by_contra hc; exact hn ((isNeg_iff x).mpr (not_le.mp hc))
    have := pyRound_refines _ _ _ _ h
    rw [this]; exact roundDown_zero_nonneg hx

/-- the buggy variant "INT truncates" is refuted by the model: `INT(-8.9) = -9` -/
example : INT ⟨true, 89, -1⟩ = .val (.dec ⟨true, 9, 0⟩) := by decide +kernel

/-- TRUNC: toward zero at every digit count (an `int` for `num_digits = 0`). -/
theorem TRUNC_refines (x : Dec) (nd : Num) (v : RVal) (h : TRUNC x nd = .val v) :
    v.toRat = trunc x.toRat (pyInt nd) := by
  unfold TRUNC at h
  split at h
  · rename_i h0
    have h0' : nd.toRat = 0 := by simpa using h0
    have := val_inj h; subst this
    rw [pyInt_zero nd h0']
    simp only [RVal.toRat, Num.toRat, truncInt_eq]
    unfold trunc roundDown
    rw [pow10_zero, mul_one, div_one]
  · exact pyRound_refines .down x nd v h

/-- D38 (fixed): `TRUNC(0.29, 2) = 0.29`. -/
example : TRUNC ⟨false, 29, -2⟩ (.int 2) = .val (.dec ⟨false, 29, -2⟩) := by decide +kernel

/- Full statement (goal): `EVEN x = .val v → v.toRat = even x.toRat` for every decimal.
   Refuted on the current code by finding D1605: for the smallest subnormal double (`5e-324`) the float
   quotient `number / 2.` is zero, so EVEN returns 0 instead of 2 (kernel-checked below).  Proved with
   the guard "the quotient does not underflow". -/
/-- EVEN: the next even integer away from zero. -/
theorem EVEN_refines_partial (x : Dec) (hu : quotientUnderflows x.mag 2 = false) (v : RVal)
    (h : EVEN x = .val v) : v.toRat = (even x.toRat : Rat) := by
  have hm := mag_nonneg x
  unfold EVEN at h
  rw [hu] at h
  simp only [Bool.false_eq_true, if_false] at h
  split at h
  · rename_i hn
    have hx := (isNeg_iff x).mp hn
    have := val_inj h; subst this
    have hneg : x.neg = true := by
      unfold Dec.isNeg at hn; simp at hn; exact hn.1
    have ex : x.toRat = -x.mag := by rw [toRat_eq, hneg]; simp
    have h2 : x.toRat / 2 = -(x.mag / 2) := by rw [ex]; ring
    have h3 : ¬ (x.mag / 2 < 0) := not_lt.mpr (by positivity)
    simp only [RVal.toRat, Num.toRat, even]
    rw [h2, awayZ_negArg]
    simp only [awayZ, h3, if_false]
    push_cast; ring
  · rename_i hn
    have hx : 0 ≤ x.toRat := by
      by_contra hc; exact hn ((isNeg_iff x).mpr (not_le.mp hc))
    have := val_inj h; subst this
    have h3 : ¬ (x.toRat / 2 < 0) := not_lt.mpr (by positivity)
    simp only [RVal.toRat, Num.toRat, even, awayZ, h3, if_false]
    push_cast; ring

/-- D1605, the counter-example to the unguarded statement: `EVEN(5e-324) = 0` on the model of the
    current code, where the reference says 2. -/
example : EVEN ⟨false, 5, -324⟩ = .val (.num (.int 0)) ∧ even (⟨false, 5, -324⟩ : Dec).toRat = 2 := by
  decide +kernel
/-- the guard is met by every other double, e.g. 1.5 -/
example : quotientUnderflows (⟨false, 15, -1⟩ : Dec).mag 2 = false := by decide +kernel

example : EVEN ⟨true, 15, -1⟩ = .val (.num (.int (-2))) := by decide +kernel
example : EVEN ⟨false, 3, 0⟩ = .val (.num (.int 4)) := by decide +kernel

/-! ### the statement's words on the model itself (direction, adjacency, ties) -/

theorem ROUND_correct (x : Dec) (nd : Num) (v : RVal) (h : ROUND x nd = .val v) :
    (∃ k : Int, v.toRat = (k : Rat) / pow10 (pyInt nd)) ∧
    |x.toRat - v.toRat| ≤ 1/2 / pow10 (pyInt nd) ∧
    (|x.toRat - v.toRat| = 1/2 / pow10 (pyInt nd) → |x.toRat| < |v.toRat|) := by
  rw [ROUND_refines x nd v h]; exact round_spec _ _

theorem ROUNDUP_correct (x : Dec) (nd : Num) (v : RVal) (h : ROUNDUP x nd = .val v) :
    (∃ k : Int, v.toRat = (k : Rat) / pow10 (pyInt nd)) ∧
    (0 ≤ x.toRat → x.toRat ≤ v.toRat ∧ v.toRat < x.toRat + 1 / pow10 (pyInt nd)) ∧
    (x.toRat < 0 → v.toRat ≤ x.toRat ∧ x.toRat - 1 / pow10 (pyInt nd) < v.toRat) := by
  rw [ROUNDUP_refines x nd v h]; exact roundUp_spec _ _

theorem ROUNDDOWN_correct (x : Dec) (nd : Num) (v : RVal) (h : ROUNDDOWN x nd = .val v) :
    (∃ k : Int, v.toRat = (k : Rat) / pow10 (pyInt nd)) ∧
    (0 ≤ x.toRat → 0 ≤ v.toRat ∧ v.toRat ≤ x.toRat ∧ x.toRat < v.toRat + 1 / pow10 (pyInt nd)) ∧
    (x.toRat < 0 → v.toRat ≤ 0 ∧ x.toRat ≤ v.toRat ∧ v.toRat - 1 / pow10 (pyInt nd) < x.toRat) := by
  rw [ROUNDDOWN_refines x nd v h]; exact roundDown_spec _ _

theorem TRUNC_correct (x : Dec) (nd : Num) (v : RVal) (h : TRUNC x nd = .val v) :
    (∃ k : Int, v.toRat = (k : Rat) / pow10 (pyInt nd)) ∧
    (0 ≤ x.toRat → 0 ≤ v.toRat ∧ v.toRat ≤ x.toRat ∧ x.toRat < v.toRat + 1 / pow10 (pyInt nd)) ∧
    (x.toRat < 0 → v.toRat ≤ 0 ∧ x.toRat ≤ v.toRat ∧ v.toRat - 1 / pow10 (pyInt nd) < x.toRat) := by
  rw [TRUNC_refines x nd v h]; exact roundDown_spec _ _

theorem INT_correct (x : Dec) (v : RVal) (h : INT x = .val v) :
    (∃ k : Int, v.toRat = k) ∧ v.toRat ≤ x.toRat ∧ x.toRat < v.toRat + 1 := by
  rw [INT_refines x v h]; exact ⟨⟨_, rfl⟩, (int_spec _).1, (int_spec _).2.1⟩

theorem EVEN_correct_partial (x : Dec) (hu : quotientUnderflows x.mag 2 = false) (v : RVal)
    (h : EVEN x = .val v) :
    (∃ k : Int, v.toRat = ((2 * k : Int) : Rat)) ∧
    (0 ≤ x.toRat → x.toRat ≤ v.toRat ∧ v.toRat < x.toRat + 2) ∧
    (x.toRat < 0 → v.toRat ≤ x.toRat ∧ x.toRat - 2 < v.toRat) := by
  rw [EVEN_refines_partial x hu v h]
  obtain ⟨⟨k, hk⟩, h2, h3⟩ := even_spec x.toRat
  exact ⟨⟨k, by rw [hk]⟩, h2, h3⟩

/-- idempotence on the model: rounding the returned decimal again returns it unchanged
    (ROUND, ROUNDUP, ROUNDDOWN and TRUNC's `_round` branch, in any combination) -/
theorem pyRound_idem (mode mode' : Mode) (x : Dec) (nd : Num) (r : Dec)
    (h : pyRound mode x nd = .val (.dec r)) : pyRound mode' r nd = .val (.dec r) := by
  unfold pyRound at h ⊢
  split at h <;> try (cases h; done)
  rename_i d hq
  have := val_inj h
  injection this with hd; subst hd
  rw [quantize_idem _ _ mode' _ _ _ hq]

theorem ROUND_idem (x : Dec) (nd : Num) (r : Dec) (h : ROUND x nd = .val (.dec r)) :
    ROUND r nd = .val (.dec r) := pyRound_idem _ _ x nd r h

/-- monotonicity on the model -/
theorem pyRound_mono (mode : Mode) (x y : Dec) (nd : Num) (v w : RVal) (hxy : x.toRat ≤ y.toRat)
    (hx : pyRound mode x nd = .val v) (hy : pyRound mode y nd = .val w) : v.toRat ≤ w.toRat := by
  rw [pyRound_refines _ _ _ _ hx, pyRound_refines _ _ _ _ hy]
  cases mode
  · exact round_mono _ hxy
  · exact roundUp_mono _ hxy
  · exact roundDown_mono _ hxy

/-! ### CEILING and FLOOR over ideal reals

`hq` holds for every decimal that `decimal.Decimal(str(float))` produces (`quantExp_le`): the
quantisation step of CEILING is then the identity on exact multiples, whatever its rounding mode.
On the running code this is only true when the float quotient and product are exact, which is the
case for integer-valued significances (within 2^53) and fails for others: finding D37
(`CEILING(0.7, 0.2) = 0.9`, `FLOOR(0.7, 0.2) = 0.6000000000000001`, `FLOOR(0.6, 0.2) = 0.4`), which
lives in IEEE arithmetic and cannot be stated over ideal reals.  The correspondence reports D37 by
witness and compares it with a float-level transcription. -/

/- Full statement (goal): `CEILING x s = .val v → v.toRat = ceiling x.toRat s.toRat` (same for FLOOR)
   for all decimals.  Refuted on the current code by finding D1605: when the float quotient
   number / significance underflows to zero (|x/s| below 2^-1075) the code returns 0 – kernel-checked
   counter-examples below.  Proved with the guard "the quotient does not underflow". -/
theorem CEILING_refines_partial (x s : Dec) (hq : quantExp s ≤ s.exp)
    (hu : quotientUnderflows x.toRat s.toRat = false) (v : RVal)
    (h : CEILING x s = .val v) : v.toRat = ceiling x.toRat s.toRat := by
  unfold CEILING at h
  split at h
  · rename_i hz
    have hs := (isZero_iff s).mp hz
    have := val_inj h; subst this
    simp [RVal.toRat, Num.toRat, ceiling, hs]
  · split at h
    · cases h
    · dsimp only at h
      rw [hu] at h
      simp only [Bool.false_eq_true, if_false] at h
      split at h
      · cases h
      · split at h
        · have := val_inj h; subst this
          simp only [RVal.toRat, mulInt_toRat, ceiling]
        · split at h <;> try (cases h; done)
          rename_i d hd
          have := val_inj h; subst this
          have hp := quantize_pad _ _ _ _ _ (by simpa [mulInt] using hq) hd
          simp only [RVal.toRat, hp, mulInt_toRat, ceiling]

theorem FLOOR_refines_partial (x s : Dec) (hu : quotientUnderflows x.toRat s.toRat = false) (v : RVal)
    (h : FLOOR x s = .val v) : v.toRat = floor x.toRat s.toRat := by
  unfold FLOOR at h
  split at h
  · cases h
  · split at h
    · rename_i hz
      have hx := (isZero_iff x).mp hz
      have := val_inj h; subst this
      have : (0 : Rat).floor = 0 := Rat.floor_intCast 0
      simp [RVal.toRat, Num.toRat, floor, hx, this]
    · split at h
      · cases h
      · dsimp only at h
        rw [hu] at h
        simp only [Bool.false_eq_true, if_false] at h
        split at h
        · cases h
        · have := val_inj h; subst this
          simp only [RVal.toRat, mulInt_toRat, floor]

/-- D1605, counter-examples to the unguarded statements: `CEILING(1e-300, 1e300) = 0` (reference
    1e300) and `FLOOR(-1e-300, 1e300) = 0` (reference -1e300) on the model of the current code. -/
example : CEILING ⟨false, 1, -300⟩ ⟨false, 1, 300⟩ = .val (.dec ⟨false, 0, -1⟩) := by decide +kernel
example : FLOOR ⟨true, 1, -300⟩ ⟨false, 1, 300⟩ = .val (.dec ⟨false, 0, 300⟩) := by decide +kernel
example : ceiling (⟨false, 1, -300⟩ : Dec).toRat (⟨false, 1, 300⟩ : Dec).toRat ≠ 0 := by decide +kernel
/-- the guard is met whenever number and significance are of comparable size -/
example : quotientUnderflows (⟨false, 25, -1⟩ : Dec).toRat (⟨false, 20, -1⟩ : Dec).toRat = false := by
  decide +kernel

/-- the domain table of CEILING / FLOOR: a negative significance with a positive number, and FLOOR
    by zero, are Excel errors; an Excel error arises only there or when the quotient leaves the
    double range. -/
theorem CEILING_outside (x s : Dec) (h : outside .CEILING [x.toRat, s.toRat] = true) :
    CEILING x s = .xlerr .num := by
  simp only [outside, Bool.and_eq_true, decide_eq_true_eq] at h
  have hs : s.isNeg = true := (isNeg_iff s).mpr h.1
  have hx : x.isPos = true := (isPos_iff x).mpr h.2
  have hz : s.isZero = false := by
    cases hz : s.isZero
    · rfl
    · have := (isZero_iff s).mp hz; linarith [h.1]
  unfold CEILING; simp [hs, hx, hz]

theorem FLOOR_outside (x s : Dec) (h : outside .FLOOR [x.toRat, s.toRat] = true) :
    FLOOR x s = .xlerr .num ∨ FLOOR x s = .xlerr .div0 := by
  simp only [outside, Bool.or_eq_true, Bool.and_eq_true, decide_eq_true_eq, beq_iff_eq, bne_iff_ne] at h
  rcases h with h | h
  · left
    have hs : s.isNeg = true := (isNeg_iff s).mpr h.1
    have hx : x.isPos = true := (isPos_iff x).mpr h.2
    unfold FLOOR; simp [hs, hx]
  · right
    have hs : s.isZero = true := (isZero_iff s).mpr h.1
    have hsn : s.isNeg = false := by
      cases hn : s.isNeg
      · rfl
      · have := (isNeg_iff s).mp hn; linarith [h.1]
    have hx : x.isZero = false := by
      cases hz : x.isZero
      · rfl
      · exact absurd ((isZero_iff x).mp hz) h.2
    unfold FLOOR; simp [hs, hsn, hx]

/-- CEILING on the model: for a positive significance the least multiple not below the number … -/
theorem CEILING_least_partial (x s : Dec) (hq : quantExp s ≤ s.exp)
    (hu : quotientUnderflows x.toRat s.toRat = false) (hs : 0 < s.toRat) (v : RVal)
    (h : CEILING x s = .val v) :
    x.toRat ≤ v.toRat ∧ v.toRat < x.toRat + s.toRat ∧ (∃ k : Int, v.toRat = s.toRat * k) ∧
    ∀ k : Int, x.toRat ≤ s.toRat * k → v.toRat ≤ s.toRat * k := by
  rw [CEILING_refines_partial x s hq hu v h]
  obtain ⟨h1, h2, h3⟩ := ceiling_pos x.toRat s.toRat hs
  exact ⟨h1, h2, ⟨_, rfl⟩, h3⟩

/-- … and FLOOR the greatest multiple not above it. -/
theorem FLOOR_greatest_partial (x s : Dec) (hu : quotientUnderflows x.toRat s.toRat = false)
    (hs : 0 < s.toRat) (v : RVal) (h : FLOOR x s = .val v) :
    v.toRat ≤ x.toRat ∧ x.toRat - s.toRat < v.toRat ∧ (∃ k : Int, v.toRat = s.toRat * k) ∧
    ∀ k : Int, s.toRat * k ≤ x.toRat → s.toRat * k ≤ v.toRat := by
  rw [FLOOR_refines_partial x s hu v h]
  obtain ⟨h1, h2, h3⟩ := floor_pos x.toRat s.toRat hs
  exact ⟨h1, h2, ⟨_, rfl⟩, h3⟩

example : quantExp ⟨false, 70, -1⟩ ≤ (⟨false, 70, -1⟩ : Dec).exp := quantExp_le _ (by decide)
example : CEILING ⟨false, 25, -1⟩ ⟨false, 20, -1⟩ = .val (.dec ⟨false, 40, -1⟩) := by decide +kernel
example : CEILING ⟨true, 25, -1⟩ ⟨true, 20, -1⟩ = .val (.dec ⟨true, 40, -1⟩) := by decide +kernel
example : FLOOR ⟨true, 25, -1⟩ ⟨true, 20, -1⟩ = .val (.dec ⟨true, 20, -1⟩) := by decide +kernel
/-- over ideal reals `CEILING(0.7, 0.2) = 0.8` and `FLOOR(0.7, 0.2) = 0.6` (the running code: D37) -/
example : CEILING ⟨false, 7, -1⟩ ⟨false, 2, -1⟩ = .val (.dec ⟨false, 8, -1⟩) := by decide +kernel
example : FLOOR ⟨false, 7, -1⟩ ⟨false, 2, -1⟩ = .val (.dec ⟨false, 6, -1⟩) := by decide +kernel

end Refinement


/-! ## Part 3 — elementary functions -/

section Elementary
open XlVerif.Model.C16

/-- ATAN2(x_num, y_num) hands `(y_num, x_num)` to the primitive: it is `atan2 y x`
    (D35, fixed: the code passed `(x, y)`). -/
theorem atan2_order (P : Prims) (x y : Num) :
    ATAN2 P x y = lift (Spec.C16.atan2 P.atan2 x.toRat y.toRat) := rfl

theorem atan2_order' (P : Prims) (x y : Num) : ATAN2 P x y = lift (P.atan2 y.toRat x.toRat) := rfl

/-- a primitive that distinguishes its arguments shows the order matters: `ATAN2(1, 2)` hands the
    `2` over first -/
example : ATAN2 probePrims (.int 1) (.int 2) = .val (.flt 2) := by decide +kernel

/-- the remainder with the sign of the divisor, over exact rationals -/
theorem mod_spec (x d : Rat) (_hd : d ≠ 0) :
    (0 < d → 0 ≤ mod x d ∧ mod x d < d) ∧ (d < 0 → d < mod x d ∧ mod x d ≤ 0) ∧
    ∃ k : Int, x = d * k + mod x d := by
  have h1 := floor_le' (x / d)
  have h2 := lt_floor_add_one' (x / d)
  refine ⟨?_, ?_, ⟨(x / d).floor, by unfold mod; ring⟩⟩
  · intro hp
    have a := (le_div_iff₀ hp).mp h1
    have b := (div_lt_iff₀ hp).mp h2
    unfold mod; constructor <;> nlinarith
  · intro hn
    have a := (le_div_iff_of_neg hn).mp h1
    have b := (div_lt_iff_of_neg hn).mp h2
    unfold mod; constructor <;> nlinarith

/-- MOD takes the sign of its divisor (`int % int` and float `%` alike), and differs from the
    number by a multiple of the divisor; a zero divisor is `#DIV/0!` (D36, fixed: it raised). -/
theorem mod_sign (n d : Num) (hd : d.toRat ≠ 0) :
    ∃ r : Num, MOD n d = .val r ∧
      (0 < d.toRat → 0 ≤ r.toRat ∧ r.toRat < d.toRat) ∧
      (d.toRat < 0 → d.toRat < r.toRat ∧ r.toRat ≤ 0) ∧
      ∃ k : Int, n.toRat = d.toRat * k + r.toRat := by
  have hb : (d.toRat == 0) = false := by simpa using hd
  have rat : ∀ (n d : Num), d.toRat ≠ 0 →
      let r : Num := .flt (n.toRat - d.toRat * ((n.toRat / d.toRat).floor : Rat))
      (0 < d.toRat → 0 ≤ r.toRat ∧ r.toRat < d.toRat) ∧
      (d.toRat < 0 → d.toRat < r.toRat ∧ r.toRat ≤ 0) ∧
      ∃ k : Int, n.toRat = d.toRat * k + r.toRat := fun n d h => mod_spec n.toRat d.toRat h
  cases n with
  | flt q => exact ⟨_, by cases d <;> simp [MOD, hb], rat _ _ hd⟩
  | int a =>
    cases d with
    | flt q => exact ⟨_, by simp [MOD, hb], rat _ _ hd⟩
    | int b =>
      refine ⟨.int (a.fmod b), by simp [MOD, hb], ?_, ?_, ?_⟩
      · intro hp
        have hp' : 0 < b := by simpa [Num.toRat] using hp
        have h1 := Int.fmod_nonneg_of_pos a hp'
        have h2 := Int.fmod_lt_of_pos a hp'
        simp only [Num.toRat]
        exact ⟨by exact_mod_cast h1, by exact_mod_cast h2⟩
      · intro hn
        have hn' : b < 0 := by simpa [Num.toRat] using hn
        have h1 := Int.fmod_nonneg_of_pos (-a) (show 0 < -b by omega)
        have h2 := Int.fmod_lt_of_pos (-a) (show 0 < -b by omega)
        rw [Int.neg_fmod_neg] at h1 h2
        simp only [Num.toRat]
        exact ⟨by exact_mod_cast (show b < a.fmod b by omega), by exact_mod_cast (show a.fmod b ≤ 0 by omega)⟩
      · refine ⟨a.fdiv b, ?_⟩
        have := Int.fmod_def a b
        simp only [Num.toRat]
        have : a = b * a.fdiv b + a.fmod b := by omega
        exact_mod_cast this

theorem MOD_zero (n d : Num) (hd : d.toRat = 0) : MOD n d = .xlerr .div0 := by
  have : (d.toRat == 0) = true := by simpa using hd
  simp [MOD, this]

example : MOD (.int 5) (.int (-3)) = .val (.int (-1)) := by decide +kernel
example : MOD (.int (-5)) (.int 3) = .val (.int 1) := by decide +kernel
example : MOD (.flt (11/2)) (.int (-3)) = .val (.flt (-1/2)) := by decide +kernel

theorem fact_eq (n : Nat) : Model.C16.fact n = Spec.C16.fact n := by
  induction n with
  | zero => rfl
  | succ k ih => simp [Model.C16.fact, Spec.C16.fact, ih]

theorem fact2_eq : ∀ n : Nat, Model.C16.fact2 n = Spec.C16.factDouble n
  | 0 => rfl
  | 1 => rfl
  | n + 2 => by simp [Model.C16.fact2, Spec.C16.factDouble, fact2_eq n]

/-- FACT / FACTDOUBLE are exact on every non-negative argument (truncated to an integer) and
    `#NUM!` below zero. -/
theorem FACT_exact (n : Num) :
    FACT n = if n.toRat < 0 then .xlerr .num else .val (.int (Spec.C16.fact (truncZ n.toRat).toNat)) := by
  unfold FACT; rw [fact_eq, pyInt_eq_truncZ]

theorem FACTDOUBLE_exact (n : Num) :
    FACTDOUBLE n = if n.toRat < 0 then .xlerr .num
      else .val (.int (Spec.C16.factDouble (truncZ n.toRat).toNat)) := by
  unfold FACTDOUBLE; rw [fact2_eq, pyInt_eq_truncZ]

example : FACT (.flt (59/10)) = .val (.int 120) := by decide +kernel
example : FACTDOUBLE (.int 7) = .val (.int 105) := by decide +kernel

/-- ABS and SIGN are exact. -/
theorem ABS_exact (n : Num) : ∃ m : Num, ABS n = .val m ∧ m.toRat = Spec.C16.abs n.toRat := by
  cases n with
  | int z =>
    refine ⟨.int z.natAbs, rfl, ?_⟩
    show (((z.natAbs : Nat) : Int) : Rat) = Spec.C16.abs (z : Rat)
    unfold Spec.C16.abs
    by_cases h : (z : Rat) < 0
    · rw [if_pos h]
      have : z < 0 := by exact_mod_cast h
      have : (z.natAbs : Int) = -z := by omega
      exact_mod_cast this
    · rw [if_neg h]
      have : 0 ≤ z := by
        have := not_lt.mp h; exact_mod_cast this
      have : (z.natAbs : Int) = z := by omega
      exact_mod_cast this
  | flt q => exact ⟨_, rfl, rfl⟩

theorem SIGN_exact (n : Num) : SIGN n = .val (.flt (Spec.C16.sign n.toRat)) := by
  unfold SIGN Spec.C16.sign
  by_cases h1 : n.toRat < 0
  · simp [h1]
  · by_cases h2 : n.toRat = 0
    · simp [h2]
    · simp [h1, h2]

/-- the contracts are satisfiable (so `domain_total` is not vacuous) -/
example : Contracts
    { sin := fun _ => .val 0, cos := fun _ => .val 0, tan := fun _ => .val 0, asin := fun _ => .val 0,
      acos := fun _ => .val 0, atan := fun _ => .val 0, cosh := fun _ => .posInf,
      asinh := fun _ => .val 0, acosh := fun _ => .val 0, exp := fun _ => .posInf,
      ln := fun _ => .val 0, log10 := fun _ => .val 0, sqrt := fun _ => .val 0,
      degrees := fun _ => .negInf, radians := fun _ => .val 0, atan2 := fun _ _ => .val 0,
      pow := fun _ _ => .crash .overflow, logb := fun _ _ => .val 0, pi := 3 } := by
  constructor <;> intros <;> simp

theorem fine_lift {o : Out Rat} (h : ∃ r, o = .val r) : Fine (lift o) := by
  obtain ⟨r, rfl⟩ := h; exact Or.inl ⟨_, rfl⟩

theorem fine_finite {o : Out Rat} (h : (∃ r, o = .val r) ∨ o = .posInf ∨ o = .negInf) :
    Fine (finite o) := by
  rcases h with ⟨r, rfl⟩ | rfl | rfl
  · exact Or.inl ⟨_, rfl⟩
  · exact Or.inr ⟨_, rfl⟩
  · exact Or.inr ⟨_, rfl⟩

/-- For every modelled elementary function and every argument the outcome is a finite value or an
    Excel error value – never NaN, an infinity or a Python exception (given the contracts). -/
theorem domain_total (P : Prims) (hP : Contracts P) (c : Call) : Fine (run P c) := by
  cases c with
  | ABS n => obtain ⟨m, h, _⟩ := ABS_exact n; exact Or.inl ⟨m, h⟩
  | SIGN n => exact Or.inl ⟨_, rfl⟩
  | SQRT n =>
    simp only [run, SQRT]; split
    · exact Or.inr ⟨_, rfl⟩
    · rename_i h; exact fine_lift (hP.sqrt _ (not_lt.mp h))
  | POWER n p =>
    simp only [run, POWER]
    split
    · exact Or.inr ⟨_, rfl⟩
    · rename_i h1
      split
      · exact Or.inr ⟨_, rfl⟩
      · rename_i h2
        have hv : Fine (match P.pow n.toRat p.toRat with
            | .crash .overflow => (.xlerr .num : Res Num) | o => lift o) := by
          have c1 : n.toRat ≠ 0 ∨ 0 ≤ p.toRat := by
            by_cases h0 : n.toRat = 0
            · right
              by_contra hc
              exact h1 ⟨by simpa using h0, not_le.mp hc⟩
            · exact Or.inl h0
          have c2 : 0 ≤ n.toRat ∨ ((truncZ p.toRat : Int) : Rat) = p.toRat := by
            by_cases h0 : n.toRat < 0
            · right
              by_contra hc
              exact h2 ⟨h0, by rw [pyInt_eq_truncZ]; exact hc⟩
            · exact Or.inl (not_lt.mp h0)
          rcases hP.pow _ _ c1 c2 with ⟨r, hr⟩ | hr
          · rw [hr]; exact Or.inl ⟨_, rfl⟩
          · rw [hr]; exact Or.inr ⟨_, rfl⟩
        cases n with
        | flt q => cases p <;> exact hv
        | int a =>
          cases p with
          | flt q => exact hv
          | int b =>
            by_cases hb : 0 ≤ b
            · simp only [hb, if_true]; exact Or.inl ⟨_, rfl⟩
            · simp only [hb, if_false]; exact hv
  | EXP n =>
    exact fine_finite (by rcases hP.exp n.toRat with h | h; exact Or.inl h; exact Or.inr (Or.inl h))
  | LN n =>
    simp only [run, LN]; split
    · exact Or.inr ⟨_, rfl⟩
    · rename_i h; exact fine_lift (hP.ln _ (not_le.mp h))
  | LOG n b =>
    simp only [run, LOG]; split
    · exact Or.inr ⟨_, rfl⟩
    · rename_i h
      split
      · exact Or.inr ⟨_, rfl⟩
      · rename_i hb
        have h' := not_or.mp h
        exact fine_lift (hP.logb _ _ (not_le.mp h'.1) (not_le.mp h'.2) (by simpa using hb))
  | LOG10 n =>
    simp only [run, LOG10]; split
    · exact Or.inr ⟨_, rfl⟩
    · rename_i h; exact fine_lift (hP.log10 _ (not_le.mp h))
  | MOD n d =>
    by_cases hd : d.toRat = 0
    · exact Or.inr ⟨_, MOD_zero n d hd⟩
    · obtain ⟨r, hr, _⟩ := mod_sign n d hd; exact Or.inl ⟨r, hr⟩
  | FACT n => simp only [run, FACT_exact]; split; exact Or.inr ⟨_, rfl⟩; exact Or.inl ⟨_, rfl⟩
  | FACTDOUBLE n =>
    simp only [run, FACTDOUBLE_exact]; split; exact Or.inr ⟨_, rfl⟩; exact Or.inl ⟨_, rfl⟩
  | SIN n => exact fine_lift (hP.sin _)
  | COS n => exact fine_lift (hP.cos _)
  | TAN n => exact fine_lift (hP.tan _)
  | ASIN n =>
    simp only [run, ASIN]; split
    · exact Or.inr ⟨_, rfl⟩
    · rename_i h; have h' := not_or.mp h
      exact fine_lift (hP.asin _ (not_lt.mp h'.1) (not_lt.mp h'.2))
  | ACOS n =>
    simp only [run, ACOS]; split
    · exact Or.inr ⟨_, rfl⟩
    · rename_i h; have h' := not_or.mp h
      exact fine_lift (hP.acos _ (not_lt.mp h'.1) (not_lt.mp h'.2))
  | ATAN n => exact fine_lift (hP.atan _)
  | ATAN2 x y => exact fine_lift (hP.atan2 _ _)
  | COSH n =>
    exact fine_finite (by rcases hP.cosh n.toRat with h | h; exact Or.inl h; exact Or.inr (Or.inl h))
  | ASINH n => exact fine_lift (hP.asinh _)
  | ACOSH n =>
    simp only [run, ACOSH]; split
    · exact Or.inr ⟨_, rfl⟩
    · rename_i h; exact fine_lift (hP.acosh _ (not_lt.mp h))
  | DEGREES n => exact fine_finite (hP.degrees _)
  | RADIANS n => exact fine_lift (hP.radians _)
  | PI => exact Or.inl ⟨_, rfl⟩

/-- The domain table, stated outright: an argument outside the mathematical domain of a function
    (`Spec.C16.outside`) gives an Excel error value – `#NUM!`, `#DIV/0!` for a zero divisor or base 1,
    `#NAME?` for ACOSH (asserted by the project's own test-suite) – whatever the primitives do. -/
theorem outside_is_error (P : Prims) (c : Call) (h : outside c.sig.1 c.sig.2 = true) :
    ∃ code, run P c = .xlerr code := by
  cases c <;> simp only [Call.sig, outside] at h <;> try (exact absurd h (by decide))
  case SQRT n => exact ⟨.num, by simp only [run, SQRT]; rw [if_pos (by simpa using h)]⟩
  case LN n => exact ⟨.num, by simp only [run, LN]; rw [if_pos (by simpa using h)]⟩
  case LOG10 n => exact ⟨.num, by simp only [run, LOG10]; rw [if_pos (by simpa using h)]⟩
  case LOG n b =>
    simp only [Bool.or_eq_true, decide_eq_true_eq, beq_iff_eq] at h
    by_cases h1 : n.toRat ≤ 0 ∨ b.toRat ≤ 0
    · exact ⟨.num, by simp only [run, LOG]; rw [if_pos h1]⟩
    · have hb : b.toRat = 1 := by
        rcases h with (h | h) | h
        · exact absurd (Or.inl h) h1
        · exact absurd (Or.inr h) h1
        · exact h
      exact ⟨.div0, by simp only [run, LOG]; rw [if_neg h1, if_pos (by simpa using hb)]⟩
  case ASIN n =>
    exact ⟨.num, by simp only [run, ASIN]; rw [if_pos (by simpa [gt_iff_lt] using h)]⟩
  case ACOS n =>
    exact ⟨.num, by simp only [run, ACOS]; rw [if_pos (by simpa [gt_iff_lt] using h)]⟩
  case ACOSH n => exact ⟨.name, by simp only [run, ACOSH]; rw [if_pos (by simpa using h)]⟩
  case MOD n d => exact ⟨.div0, MOD_zero n d (by simpa using h)⟩
  case FACT n => exact ⟨.num, by simp only [run, FACT]; rw [if_pos (by simpa using h)]⟩
  case FACTDOUBLE n => exact ⟨.num, by simp only [run, FACTDOUBLE]; rw [if_pos (by simpa using h)]⟩
  case POWER n p =>
    simp only [Bool.or_eq_true, Bool.and_eq_true, decide_eq_true_eq, beq_iff_eq, Bool.not_eq_true',
      isInt] at h
    by_cases h1 : (n.toRat == 0) = true ∧ p.toRat < 0
    · exact ⟨.div0, by simp only [run, POWER]; rw [if_pos h1]⟩
    · have h2 : n.toRat < 0 ∧ ((pyInt p : Int) : Rat) ≠ p.toRat := by
        rcases h with h | h
        · exact absurd ⟨by simpa using h.1, h.2⟩ h1
        · refine ⟨h.1, fun he => ?_⟩
          have : (p.toRat).den = 1 := by rw [← he]; rfl
          simp [this] at h
      exact ⟨.num, by simp only [run, POWER]; rw [if_neg h1, if_pos h2]⟩

/-! ### totality of the rounding family on (and far beyond) the statement's domain -/

theorem rounding_total (x : Dec) (nd : Num)
    (hc : x.coef < 10 ^ 17) (he : x.exp ≤ 400) (hd : pyInt nd ≤ 250) :
    Fine (ROUND x nd) ∧ Fine (ROUNDUP x nd) ∧ Fine (ROUNDDOWN x nd) ∧ Fine (TRUNC x nd) ∧
    Fine (INT x) ∧ Fine (EVEN x) := by
  have t : ∀ m, Fine (pyRound m x nd) := fun m => Or.inl (pyRound_total m x nd hc he hd)
  have t0 : ∀ m, Fine (pyRound m x (.int 0)) :=
    fun m => Or.inl (pyRound_total m x (.int 0) hc he (by decide))
  refine ⟨t _, t _, t _, ?_, ?_, ?_⟩
  · unfold TRUNC; split
    · exact Or.inl ⟨_, rfl⟩
    · exact t _
  · unfold INT; split <;> exact t0 _
  · unfold EVEN; split <;> (try split) <;> exact Or.inl ⟨_, rfl⟩

example : (⟨true, 123456789012345, -320⟩ : Dec).coef < 10 ^ 17 := by decide

/-- FLOOR never raises and never returns a non-finite value, for any two decimals. -/
theorem FLOOR_total (x s : Dec) : Fine (FLOOR x s) := by
  unfold FLOOR
  split
  · exact Or.inr ⟨_, rfl⟩
  · split
    · exact Or.inl ⟨_, rfl⟩
    · split
      · exact Or.inr ⟨_, rfl⟩
      · dsimp only
        split
        · exact Or.inr ⟨_, rfl⟩
        · exact Or.inl ⟨_, rfl⟩

/-- CEILING returns a value, `#NUM!`, or (only if the quantised result needed more than 700 digits)
    raises `decimal.InvalidOperation` – for any two decimals. -/
theorem CEILING_outcome (x s : Dec) :
    Fine (CEILING x s) ∨ CEILING x s = .crash .invalidOperation := by
  unfold CEILING
  split
  · exact Or.inl (Or.inl ⟨_, rfl⟩)
  · split
    · exact Or.inl (Or.inr ⟨_, rfl⟩)
    · dsimp only
      split
      · exact Or.inl (Or.inr ⟨_, rfl⟩)
      · split
        · exact Or.inl (Or.inl ⟨_, rfl⟩)
        · generalize hm : (if (x.isNeg && s.isNeg) = true then Mode.down else Mode.up) = mode
          rcases quantize_outcome 700 mode
            (mulInt s (if quotientUnderflows x.toRat s.toRat = true then 0 else (x.toRat / s.toRat).ceil))
            (quantExp s) with ⟨r, hr⟩ | hr
          · rw [hr]; exact Or.inl (Or.inl ⟨_, rfl⟩)
          · rw [hr]; exact Or.inr rfl

set_option exponentiation.threshold 2048 in
/-- … and the overflow guard on the quotient keeps the result within the 700 digits for every
    significance of up to 17 digits below 1e317 that `str(float)` can print (D1602, fixed: the
    default 28-digit context raised from 1e27 on). -/
theorem CEILING_total (x s : Dec) (hq : quantExp s ≤ s.exp) (hc : s.coef < 10 ^ 17) (he : s.exp ≤ 300) :
    Fine (CEILING x s) := by
  unfold CEILING
  split
  · exact Or.inl ⟨_, rfl⟩
  · split
    · exact Or.inr ⟨_, rfl⟩
    · dsimp only
      split
      · exact Or.inr ⟨_, rfl⟩
      · rename_i hov
        split
        · exact Or.inl ⟨_, rfl⟩
        · generalize hm : (if (x.isNeg && s.isNeg) = true then Mode.down else Mode.up) = mode
          have hkb : (if quotientUnderflows x.toRat s.toRat = true then 0
              else (x.toRat / s.toRat).ceil).natAbs < 10 ^ 309 := by
            split
            · norm_num
            · exact ceil_natAbs_bound x.toRat s.toRat (by simpa using hov)
          generalize (if quotientUnderflows x.toRat s.toRat = true then 0
              else (x.toRat / s.toRat).ceil) = k at hkb
          have hpad : (s.exp - quantExp s).toNat ≤ 301 := by
            rcases quantExp_ge s with h | h <;> omega
          have hd : numDigits (s.coef * k.natAbs * 10 ^ (s.exp - quantExp s).toNat) ≤ 700 := by
            apply numDigits_le _ _ (by norm_num)
            have h1 : 10 ^ (s.exp - quantExp s).toNat ≤ 10 ^ 301 := Nat.pow_le_pow_right (by norm_num) hpad
            calc s.coef * k.natAbs * 10 ^ (s.exp - quantExp s).toNat
                < 10 ^ 17 * 10 ^ 309 * 10 ^ 301 := by
                  apply Nat.mul_lt_mul_of_lt_of_le _ h1 (by positivity)
                  exact Nat.mul_lt_mul'' hc hkb
              _ ≤ 10 ^ 700 := by norm_num
          have : quantize 700 mode (mulInt s k) (quantExp s)
              = .val ⟨(mulInt s k).neg, s.coef * k.natAbs * 10 ^ (s.exp - quantExp s).toNat, quantExp s⟩ := by
            unfold quantize
            have hle : quantExp s ≤ (mulInt s k).exp := hq
            simp only [hle, if_true]
            have : (mulInt s k).coef = s.coef * k.natAbs := rfl
            have e2 : (mulInt s k).exp = s.exp := rfl
            rw [this, e2, if_neg (Nat.not_lt.mpr hd)]
          rw [this]; exact Or.inl ⟨_, rfl⟩

example : Fine (CEILING ⟨false, 1, 30⟩ ⟨false, 70, -1⟩) :=
  CEILING_total _ _ (quantExp_le _ (by decide)) (by decide) (by decide)

/-- ISEVEN / ISODD (information.py) look at the integer part only and always disagree. -/
theorem iseven_isodd (n : Num) : ISEVEN n = !ISODD n := by
  unfold ISEVEN ISODD; split <;> simp

theorem iseven_spec (n : Num) : ISEVEN n = ((truncZ n.toRat) % 2 == 0) := by
  unfold ISEVEN
  rw [pyInt_eq_truncZ]
  generalize truncZ n.toRat = z
  have h2 : z.fmod 2 = z % 2 := Int.fmod_eq_emod_of_nonneg z (by decide)
  by_cases h1 : z = 1
  · subst h1; decide
  · simp [h1, h2]

theorem lift_val {o : Out Rat} (h : ∃ r, o = .val r) : ∃ v, lift o = .val v := by
  obtain ⟨r, rfl⟩ := h; exact ⟨_, rfl⟩

/-- … and the guards are not over-eager: inside the domain every function whose result cannot
    overflow returns a value (for EXP, COSH, DEGREES and POWER see `domain_total`: a value, or `#NUM!`
    when the result leaves the double range). -/
theorem inside_is_value (P : Prims) (hP : Contracts P) (c : Call)
    (h : outside c.sig.1 c.sig.2 = false)
    (hc : match c with | .EXP _ | .COSH _ | .DEGREES _ | .POWER _ _ => False | _ => True) :
    ∃ v, run P c = .val v := by
  cases c with
  | ABS n =>
    simp only [Call.sig, outside] at h
    obtain ⟨m, hm, _⟩ := ABS_exact n; exact ⟨m, hm⟩
  | SIGN n =>
    simp only [Call.sig, outside] at h
    exact ⟨_, rfl⟩
  | SQRT n =>
    simp only [Call.sig, outside] at h
    have : ¬ n.toRat < 0 := by simpa using h
    simp only [run, SQRT, this, if_false]; exact lift_val (hP.sqrt _ (not_lt.mp this))
  | LN n =>
    simp only [Call.sig, outside] at h
    have : ¬ n.toRat ≤ 0 := by simpa using h
    simp only [run, LN, this, if_false]; exact lift_val (hP.ln _ (not_le.mp this))
  | LOG10 n =>
    simp only [Call.sig, outside] at h
    have : ¬ n.toRat ≤ 0 := by simpa using h
    simp only [run, LOG10, this, if_false]; exact lift_val (hP.log10 _ (not_le.mp this))
  | LOG n b =>
    simp only [Call.sig, outside] at h
    simp only [Bool.or_eq_false_iff, decide_eq_false_iff_not, beq_eq_false_iff_ne] at h
    obtain ⟨⟨h1, h2⟩, h3⟩ := h
    have g1 : ¬ (n.toRat ≤ 0 ∨ b.toRat ≤ 0) := by rintro (x | x); exact h1 x; exact h2 x
    have g2 : (b.toRat == 1) = false := by simpa using h3
    simp only [run, LOG, g1, if_false, g2]
    exact lift_val (hP.logb _ _ (not_le.mp h1) (not_le.mp h2) h3)
  | MOD n d =>
    simp only [Call.sig, outside] at h
    have : d.toRat ≠ 0 := by simpa using h
    obtain ⟨r, hr, _⟩ := mod_sign n d this; exact ⟨r, hr⟩
  | FACT n =>
    simp only [Call.sig, outside] at h
    have : ¬ n.toRat < 0 := by simpa using h
    simp only [run, FACT, this, if_false]; exact ⟨_, rfl⟩
  | FACTDOUBLE n =>
    simp only [Call.sig, outside] at h
    have : ¬ n.toRat < 0 := by simpa using h
    simp only [run, FACTDOUBLE, this, if_false]; exact ⟨_, rfl⟩
  | SIN n =>
    simp only [Call.sig, outside] at h
    exact lift_val (hP.sin _)
  | COS n =>
    simp only [Call.sig, outside] at h
    exact lift_val (hP.cos _)
  | TAN n =>
    simp only [Call.sig, outside] at h
    exact lift_val (hP.tan _)
  | ASIN n =>
    simp only [Call.sig, outside] at h
    simp only [Bool.or_eq_false_iff, decide_eq_false_iff_not] at h
    have g : ¬ (n.toRat < -1 ∨ n.toRat > 1) := by rintro (x | x); exact h.1 x; exact h.2 x
    simp only [run, ASIN, g, if_false]
    exact lift_val (hP.asin _ (not_lt.mp h.1) (not_lt.mp h.2))
  | ACOS n =>
    simp only [Call.sig, outside] at h
    simp only [Bool.or_eq_false_iff, decide_eq_false_iff_not] at h
    have g : ¬ (n.toRat < -1 ∨ n.toRat > 1) := by rintro (x | x); exact h.1 x; exact h.2 x
    simp only [run, ACOS, g, if_false]
    exact lift_val (hP.acos _ (not_lt.mp h.1) (not_lt.mp h.2))
  | ATAN n =>
    simp only [Call.sig, outside] at h
    exact lift_val (hP.atan _)
  | ATAN2 x y =>
    simp only [Call.sig, outside] at h
    exact lift_val (hP.atan2 _ _)
  | ASINH n =>
    simp only [Call.sig, outside] at h
    exact lift_val (hP.asinh _)
  | ACOSH n =>
    simp only [Call.sig, outside] at h
    have : ¬ n.toRat < 1 := by simpa using h
    simp only [run, ACOSH, this, if_false]; exact lift_val (hP.acosh _ (not_lt.mp this))
  | RADIANS n =>
    simp only [Call.sig, outside] at h
    exact lift_val (hP.radians _)
  | PI =>
    simp only [Call.sig, outside] at h
    exact ⟨_, rfl⟩
  | EXP n => exact hc.elim
  | COSH n => exact hc.elim
  | DEGREES n => exact hc.elim
  | POWER n p => exact hc.elim

example : outside (Call.ACOS (.int 1)).sig.1 (Call.ACOS (.int 1)).sig.2 = false := by decide +kernel

example : outside (Call.LN (.int 0)).sig.1 (Call.LN (.int 0)).sig.2 = true := by decide +kernel
example : outside (Call.POWER (.int (-8)) (.flt (1/3))).sig.1 (Call.POWER (.int (-8)) (.flt (1/3))).sig.2 = true := by
  decide +kernel

/-- D18 / D36 (fixed): the boundary arguments are Excel errors on the model -/
example (P : Prims) : POWER P (.int 0) (.int (-1)) = .xlerr .div0 := by simp [POWER, Num.toRat]
example (P : Prims) : LN P (.int 0) = .xlerr .num := by simp [LN, Num.toRat]
example (P : Prims) : LOG P (.int 8) (.int 1) = .xlerr .div0 := by simp [LOG, Num.toRat]

end Elementary

end XlVerif.Props.C16
