/-
  C17 — text functions agree with 1-based string reference semantics.
  Theorems are about `Model.C17` (the mirror of text.py) and hold for *every* text, position and
  count.  The correspondence check ties `Model.C17` to the running code.
-/
import XlVerif.Model.C17
import XlVerif.Spec.C17
namespace XlVerif.Props.C17
open XlVerif XlVerif.Model.C17

/-! ### Python slices on in-range bounds, and the closed form of every body -/

theorem pyIdx_nonneg (len : Nat) (i : Int) (h : 0 ≤ i) : pyIdx len i = min i.toNat len := by
  unfold pyIdx; split <;> omega

theorem pySliceTo_eq_take (s : List Char) (n : Int) (h : 0 ≤ n) : pySliceTo s n = s.take n.toNat := by
  unfold pySliceTo pySlice
  simp only [pyIdx_nonneg _ _ h, pyIdx_nonneg _ 0 (Int.le_refl 0)]
  have : min (Int.toNat 0) s.length = 0 := by simp
  rw [this, List.drop_zero, List.take_eq_take_iff]
  omega
theorem pySliceFrom_eq_drop (s : List Char) (n : Int) (h : 0 ≤ n) : pySliceFrom s n = s.drop n.toNat := by
  unfold pySliceFrom
  rw [pyIdx_nonneg _ _ h]
  by_cases hl : n.toNat ≤ s.length
  · rw [Nat.min_eq_left hl]
  · have : s.length ≤ n.toNat := by omega
    rw [Nat.min_eq_right this, List.drop_of_length_le (Nat.le_refl _), List.drop_of_length_le this]
theorem pySlice_eq (s : List Char) (lo hi : Int) (h0 : 0 ≤ lo) (h1 : lo ≤ hi) :
    pySlice s lo hi = (s.drop lo.toNat).take (hi.toNat - lo.toNat) := by
  unfold pySlice
  simp only [pyIdx_nonneg _ _ h0, pyIdx_nonneg _ _ (Int.le_trans h0 h1)]
  by_cases hl : lo.toNat ≤ s.length
  · rw [Nat.min_eq_left hl, List.take_eq_take_iff, List.length_drop]
    omega
  · have hl' : s.length ≤ lo.toNat := by omega
    rw [Nat.min_eq_right hl', List.drop_of_length_le (Nat.le_refl _), List.drop_of_length_le hl']
    simp

theorem LEFT_eq (s : List Char) (n : Num) :
    LEFT s n = if pyInt n < 0 then .error .value else .ok (s.take (pyInt n).toNat) := by
  unfold LEFT
  by_cases h : pyInt n < 0
  · simp [h]
  · simp only [h, if_false]; rw [pySliceTo_eq_take _ _ (by omega)]

theorem RIGHT_eq (s : List Char) (n : Num) :
    RIGHT s n = if pyInt n < 0 then .error .value else .ok (s.drop (s.length - (pyInt n).toNat)) := by
  unfold RIGHT
  by_cases h : pyInt n < 0
  · simp [h]
  · simp only [h, if_false]
    rw [pySliceFrom_eq_drop _ _ (by omega)]
    have : ((s.length : Int) - min (pyInt n) s.length).toNat = s.length - (pyInt n).toNat := by omega
    rw [this]

theorem MID_eq (s : List Char) (p k : Num) (hlen : s.length ≤ Gen.cellCharacterLimit) :
    MID s p k = if pyInt p < 1 then .error .num else if pyInt k < 0 then .error .num
      else .ok ((s.drop ((pyInt p).toNat - 1)).take (pyInt k).toNat) := by
  unfold MID
  have : ¬ s.length > Gen.cellCharacterLimit := by omega
  simp only [this, if_false]
  by_cases h1 : pyInt p < 1
  · simp [h1]
  · by_cases h2 : pyInt k < 0
    · simp [h1, h2]
    · simp only [h1, h2, if_false]
      rw [pySlice_eq _ _ _ (by omega) (by omega)]
      have e1 : (pyInt p - 1).toNat = (pyInt p).toNat - 1 := by omega
      have e2 : (pyInt p - 1 + pyInt k).toNat - ((pyInt p).toNat - 1) = (pyInt k).toNat := by omega
      rw [e1, e2]

theorem REPLACE_eq (s : List Char) (p k : Num) (t : List Char) :
    REPLACE s p k t = if pyInt p < 1 ∨ pyInt k < 0 then .error .value
      else .ok (s.take ((pyInt p).toNat - 1) ++ t ++ s.drop ((pyInt p).toNat - 1 + (pyInt k).toNat)) := by
  unfold REPLACE
  by_cases h : pyInt p < 1 ∨ pyInt k < 0
  · have : pyInt p - 1 < 0 ∨ pyInt k < 0 := by omega
    simp [h, this]
  · have h' : ¬ (pyInt p - 1 < 0 ∨ pyInt k < 0) := by omega
    simp only [h, h', if_false]
    rw [pySliceTo_eq_take _ _ (by omega), pySliceFrom_eq_drop _ _ (by omega)]
    have e1 : (pyInt p - 1).toNat = (pyInt p).toNat - 1 := by omega
    have e2 : (pyInt p - 1 + pyInt k).toNat = (pyInt p).toNat - 1 + (pyInt k).toNat := by omega
    rw [e1, e2]

/-! ### Refinement: every body equals the reference semantics, for all arguments -/

/-- forget which error code was raised -/
def erase {α} : R α → Option α
  | .ok a => some a
  | .error _ => none

theorem LEFT_refines (s : List Char) (n : Num) : erase (LEFT s n) = Spec.C17.left s (pyInt n) := by
  rw [LEFT_eq]; unfold Spec.C17.left; split <;> simp [erase]

theorem RIGHT_refines (s : List Char) (n : Num) : erase (RIGHT s n) = Spec.C17.right s (pyInt n) := by
  rw [RIGHT_eq]; unfold Spec.C17.right; split <;> simp [erase]

theorem MID_refines (s : List Char) (p k : Num) (hlen : s.length ≤ Gen.cellCharacterLimit) :
    erase (MID s p k) = Spec.C17.mid s (pyInt p) (pyInt k) := by
  rw [MID_eq _ _ _ hlen]; unfold Spec.C17.mid
  by_cases h1 : pyInt p < 1
  · simp [h1, erase]
  · by_cases h2 : pyInt k < 0 <;> simp [h1, h2, erase]

theorem REPLACE_refines (s : List Char) (p k : Num) (t : List Char) :
    erase (REPLACE s p k t) = Spec.C17.replace s (pyInt p) (pyInt k) t := by
  rw [REPLACE_eq]; unfold Spec.C17.replace; split <;> simp [erase]

/-! ### FIND: first occurrence at or after the start position, case-sensitively -/

theorem findAt_some {t : List Char} : ∀ {s : List Char} {off r : Nat}, findAt t s off = some r →
    off ≤ r ∧ r - off ≤ s.length ∧ t <+: s.drop (r - off) ∧
      ∀ j, off ≤ j → j < r → ¬ t <+: s.drop (j - off)
  | [], off, r, h => by
    unfold findAt at h
    split at h
    · rename_i ht; cases h; subst ht
      refine ⟨Nat.le_refl _, by simp, by simp, fun j h1 h2 => by omega⟩
    · cases h
  | c :: s, off, r, h => by
    unfold findAt at h
    split at h
    · rename_i hp; cases h
      refine ⟨Nat.le_refl _, by simp, ?_, fun j h1 h2 => by omega⟩
      simpa [List.isPrefixOf_iff_prefix] using hp
    · rename_i hp
      obtain ⟨h1, h2, h3, h4⟩ := findAt_some h
      have e : r - off = (r - (off + 1)) + 1 := by omega
      refine ⟨by omega, by simp; omega, by rw [e]; simpa using h3, fun j hj1 hj2 => ?_⟩
      by_cases hj : j = off
      · subst hj; simpa [List.isPrefixOf_iff_prefix] using hp
      · have e2 : j - off = (j - (off + 1)) + 1 := by omega
        rw [e2]; simpa using h4 j (by omega) hj2

theorem findAt_none {t : List Char} : ∀ {s : List Char} {off : Nat}, findAt t s off = none →
    ∀ j, j ≤ s.length → ¬ t <+: s.drop j
  | [], off, h => by
    unfold findAt at h
    split at h
    · cases h
    · rename_i ht; intro j hj hp
      simp at hj; subst hj
      simp at hp; exact ht hp
  | c :: s, off, h => by
    unfold findAt at h
    split at h
    · cases h
    · rename_i hp
      intro j hj
      cases j with
      | zero => simpa [List.isPrefixOf_iff_prefix] using hp
      | succ j => simpa using findAt_none h j (by simpa using hj)

/-- **FIND(t,s,p) is the first position ≥ p at which t occurs in s** (1-based, case-sensitive),
    and an error when `p < 1` or there is no such position. -/
theorem FIND_first_ge (t s : List Char) (p : Num) :
    (∀ r, FIND t s p = .ok r →
        1 ≤ pyInt p ∧ pyInt p ≤ r ∧ Spec.C17.occursAt t s r.toNat ∧
        ∀ j : Nat, (pyInt p).toNat ≤ j → j < r.toNat → ¬ Spec.C17.occursAt t s j) ∧
    (∀ c, FIND t s p = .error c →
        pyInt p < 1 ∨ ∀ j : Nat, (pyInt p).toNat ≤ j → ¬ Spec.C17.occursAt t s j) := by
  unfold FIND
  by_cases hp : pyInt p < 1
  · simp [hp]
  · simp only [hp, if_false]
    have hp1 : 1 ≤ pyInt p := by omega
    unfold pyIndex
    by_cases hlen : (pyInt p - 1).toNat > s.length
    · simp only [hlen, if_true]
      refine ⟨fun r h => (by cases h), fun c _ => Or.inr fun j hj ho => ?_⟩
      unfold Spec.C17.occursAt at ho; omega
    · simp only [hlen, if_false]
      cases hf : findAt t (s.drop (pyInt p - 1).toNat) (pyInt p - 1).toNat with
      | some i =>
        obtain ⟨h1, h2, h3, h4⟩ := findAt_some hf
        refine ⟨fun r h => ?_, fun c h => by cases h⟩
        cases h
        have hi : ((i : Int) + 1).toNat = i + 1 := by omega
        simp only [List.length_drop] at h2
        refine ⟨hp1, by omega, ?_, fun j hj1 hj2 => ?_⟩
        · unfold Spec.C17.occursAt
          rw [hi]
          refine ⟨by omega, by omega, ?_⟩
          rw [List.drop_drop] at h3
          have : (pyInt p - 1).toNat + (i - (pyInt p - 1).toNat) = i + 1 - 1 := by omega
          rwa [this] at h3
        · rw [hi] at hj2
          intro ho
          unfold Spec.C17.occursAt at ho
          have := h4 (j - 1) (by omega) (by omega)
          rw [List.drop_drop] at this
          have e : (pyInt p - 1).toNat + (j - 1 - (pyInt p - 1).toNat) = j - 1 := by omega
          rw [e] at this
          exact this ho.2.2
      | none =>
        refine ⟨fun r h => (by cases h), fun c _ => Or.inr fun j hj ho => ?_⟩
        unfold Spec.C17.occursAt at ho
        have := findAt_none hf (j - 1 - (pyInt p - 1).toNat) (by simp; omega)
        rw [List.drop_drop] at this
        have e : (pyInt p - 1).toNat + (j - 1 - (pyInt p - 1).toNat) = j - 1 := by omega
        rw [e] at this
        exact this ho.2.2

/-! ### The algebraic consequences named in the statement (for every text) -/

/-- `LEFT(s,n) & RIGHT(s,LEN(s)-n) = s` for `0 ≤ n ≤ LEN(s)`. -/
theorem left_right_split (s : List Char) (n : Nat) (h : n ≤ s.length) :
    ∃ l r, LEFT s (.int n) = .ok l ∧ RIGHT s (.int ((s.length : Int) - n)) = .ok r ∧ l ++ r = s := by
  refine ⟨s.take n, s.drop n, ?_, ?_, List.take_append_drop n s⟩
  · rw [LEFT_eq]
    have h1 : ¬ ((n : Int) < 0) := by omega
    simp [pyInt, h1]
  · rw [RIGHT_eq]
    have h2 : ¬ ((s.length : Int) - n < 0) := by omega
    have h3 : s.length - ((s.length : Int) - n).toNat = n := by omega
    simp only [pyInt, h2, if_false, h3]

/-- `MID(s,1,n) = LEFT(s,n)` for every count `n` (both are errors for `n < 0`). -/
theorem mid_one_eq_left (s : List Char) (n : Num) (hlen : s.length ≤ Gen.cellCharacterLimit) :
    erase (MID s (.int 1) n) = erase (LEFT s n) := by
  rw [MID_eq _ _ _ hlen, LEFT_eq]
  have e : pyInt (.int 1) = 1 := rfl
  by_cases h : pyInt n < 0 <;> simp [h, e, erase]

/-- `LEN(a & b) = LEN(a) + LEN(b)` (`&` is CONCAT of the two texts). -/
theorem len_concat (a b : List Char) :
    ∃ ab, CONCAT [a, b] = .ok ab ∧ LEN ab = .ok ((a.length : Int) + b.length) := by
  refine ⟨a ++ b, by simp [CONCAT], by simp [LEN]⟩

/-- `REPLACE(s,p,k,t) = LEFT(s,p-1) & t & MID(s,p+k,LEN(s))`. -/
theorem replace_spec (s t : List Char) (p k : Nat) (hp : 1 ≤ p) (hlen : s.length ≤ Gen.cellCharacterLimit) :
    ∃ l m, LEFT s (.int ((p : Int) - 1)) = .ok l ∧
           MID s (.int ((p : Int) + k)) (.int s.length) = .ok m ∧
           REPLACE s (.int p) (.int k) t = .ok (l ++ t ++ m) := by
  have h1 : ¬ ((p : Int) - 1 < 0) := by omega
  have h2 : ¬ ((p : Int) + k < 1) := by omega
  have h3 : ¬ ((p : Int) < 1 ∨ (k : Int) < 0) := by omega
  have h4 : ¬ ((s.length : Int) < 0) := by omega
  refine ⟨s.take (p - 1), s.drop (p - 1 + k), ?_, ?_, ?_⟩
  · rw [LEFT_eq]; simp only [pyInt, h1, if_false]
    have : ((p : Int) - 1).toNat = p - 1 := by omega
    rw [this]
  · rw [MID_eq _ _ _ hlen]; simp only [pyInt, h2, h4, if_false]
    have : ((p : Int) + k).toNat - 1 = p - 1 + k := by omega
    rw [this, List.take_of_length_le]
    simp
  · rw [REPLACE_eq]; simp only [pyInt, h3, if_false]
    simp

/-- every text is the concatenation of what lies before a position, `k` characters from it, and the rest:
    `LEFT(s,p-1) & MID(s,p,k) & MID(s,p+k,LEN(s)) = s` for every `p ≥ 1` and `k ≥ 0` -/
theorem mid_partition (s : List Char) (p k : Nat) (hp : 1 ≤ p) (hlen : s.length ≤ Gen.cellCharacterLimit) :
    ∃ l m r, LEFT s (.int ((p : Int) - 1)) = .ok l ∧ MID s (.int p) (.int k) = .ok m ∧
             MID s (.int ((p : Int) + k)) (.int s.length) = .ok r ∧ l ++ m ++ r = s := by
  have h1 : ¬ ((p : Int) - 1 < 0) := by omega
  have h2 : ¬ ((p : Int) + k < 1) := by omega
  have h3 : ¬ ((p : Int) < 1) := by omega
  have h4 : ¬ ((s.length : Int) < 0) := by omega
  have h5 : ¬ ((k : Int) < 0) := by omega
  refine ⟨s.take (p - 1), (s.drop (p - 1)).take k, s.drop (p - 1 + k), ?_, ?_, ?_, ?_⟩
  · rw [LEFT_eq]; simp only [pyInt, h1, if_false]
    have : ((p : Int) - 1).toNat = p - 1 := by omega
    rw [this]
  · rw [MID_eq _ _ _ hlen]; simp only [pyInt, h3, h5, if_false]
    simp
  · rw [MID_eq _ _ _ hlen]; simp only [pyInt, h2, h4, if_false]
    have : ((p : Int) + k).toNat - 1 = p - 1 + k := by omega
    rw [this, List.take_of_length_le]
    simp
  · rw [List.append_assoc, ← List.drop_drop, List.take_append_drop, List.take_append_drop]

/-- replacing a stretch by itself changes nothing: `REPLACE(s,p,k,MID(s,p,k)) = s` -/
theorem replace_mid_identity (s : List Char) (p k : Nat) (hp : 1 ≤ p) (hlen : s.length ≤ Gen.cellCharacterLimit) :
    ∃ m, MID s (.int p) (.int k) = .ok m ∧ REPLACE s (.int p) (.int k) m = .ok s := by
  have h3 : ¬ ((p : Int) < 1) := by omega
  have h5 : ¬ ((k : Int) < 0) := by omega
  have h6 : ¬ ((p : Int) < 1 ∨ (k : Int) < 0) := by omega
  refine ⟨(s.drop (p - 1)).take k, ?_, ?_⟩
  · rw [MID_eq _ _ _ hlen]; simp only [pyInt, h3, h5, if_false]
    simp
  · rw [REPLACE_eq]; simp only [pyInt, h6, if_false]
    simp only [Int.toNat_natCast]
    rw [List.append_assoc, ← List.drop_drop, List.take_append_drop, List.take_append_drop]

/-- `LEN(LEFT(s,n)) = LEN(RIGHT(s,n)) = min(n, LEN(s))` and `LEN(MID(s,p,k)) = min(k, LEN(s)-(p-1))` -/
theorem len_pieces (s : List Char) (n p k : Nat) (hp : 1 ≤ p) (hlen : s.length ≤ Gen.cellCharacterLimit) :
    ∃ l r m, LEFT s (.int n) = .ok l ∧ RIGHT s (.int n) = .ok r ∧ MID s (.int p) (.int k) = .ok m ∧
      l.length = min n s.length ∧ r.length = min n s.length ∧ m.length = min k (s.length - (p - 1)) := by
  have h1 : ¬ ((n : Int) < 0) := by omega
  have h3 : ¬ ((p : Int) < 1) := by omega
  have h5 : ¬ ((k : Int) < 0) := by omega
  refine ⟨s.take n, s.drop (s.length - n), (s.drop (p - 1)).take k, ?_, ?_, ?_, ?_, ?_, ?_⟩
  · rw [LEFT_eq]; simp [pyInt, h1]
  · rw [RIGHT_eq]; simp [pyInt, h1]
  · rw [MID_eq _ _ _ hlen]; simp only [pyInt, h3, h5, if_false]; simp
  · simp
  · simp; omega
  · simp

/-- a count of 0 gives the empty text -/
theorem count_zero_empty (s : List Char) (p : Nat) (hp : 1 ≤ p) (hlen : s.length ≤ Gen.cellCharacterLimit) :
    LEFT s (.int 0) = .ok [] ∧ RIGHT s (.int 0) = .ok [] ∧ MID s (.int p) (.int 0) = .ok [] := by
  refine ⟨?_, ?_, ?_⟩
  · rw [LEFT_eq]; simp [pyInt]
  · rw [RIGHT_eq]; simp [pyInt]
  · rw [MID_eq _ _ _ hlen]
    have : ¬ ((p : Int) < 1) := by omega
    simp [pyInt, this]

/-- counts are clipped at the end of the text -/
theorem clipping (s : List Char) (n : Nat) (h : s.length ≤ n) :
    LEFT s (.int n) = .ok s ∧ RIGHT s (.int n) = .ok s := by
  have h1 : ¬ ((n : Int) < 0) := by omega
  constructor
  · rw [LEFT_eq]; simp [pyInt, h1, List.take_of_length_le h]
  · rw [RIGHT_eq]
    have : s.length - n = 0 := by omega
    simp [pyInt, h1, this]

/-- positions below 1 and negative counts give an error value -/
theorem bad_arguments_error (s t : List Char) (n : Int) (hn : n < 0) (p : Int) (hp : p < 1)
    (hlen : s.length ≤ Gen.cellCharacterLimit) :
    LEFT s (.int n) = .error .value ∧ RIGHT s (.int n) = .error .value ∧
    MID s (.int p) (.int 1) = .error .num ∧ MID s (.int 1) (.int n) = .error .num ∧
    FIND t s (.int p) = .error .value ∧ REPLACE s (.int p) (.int 1) t = .error .value ∧
    REPLACE s (.int 1) (.int n) t = .error .value := by
  refine ⟨?_, ?_, ?_, ?_, ?_, ?_, ?_⟩
  · rw [LEFT_eq]; simp [pyInt, hn]
  · rw [RIGHT_eq]; simp [pyInt, hn]
  · rw [MID_eq _ _ _ hlen]; simp [pyInt, hp]
  · rw [MID_eq _ _ _ hlen]; simp [pyInt, hn]
  · simp [FIND, pyInt, hp]
  · rw [REPLACE_eq]; simp [pyInt, hp]
  · rw [REPLACE_eq]; simp [pyInt, hn]

/-- EXACT is equality of the texts (case-sensitive) -/
theorem exact_iff (a b : List Char) : EXACT a b = .ok true ↔ a = b := by
  simp [EXACT]

/-- UPPER/LOWER keep the length -/
theorem upper_lower_len (s : List Char) :
    (∃ u, UPPER s = .ok u ∧ u.length = s.length) ∧ (∃ l, LOWER s = .ok l ∧ l.length = s.length) :=
  ⟨⟨_, rfl, by simp⟩, ⟨_, rfl, by simp⟩⟩

/-! ### non-vacuity: concrete instances -/
example : LEFT "hello".toList (.int 2) = .ok "he".toList := by decide
example : RIGHT "hello".toList (.int 0) = .ok [] := by decide
example : FIND "na".toList "banana".toList (.int 4) = .ok 5 := by decide
example : REPLACE "abcabc".toList (.int 4) (.int 2) "X".toList = .ok "abcXc".toList := by decide
example : TRIM " a   b ".toList = .ok "a b".toList := by decide

end XlVerif.Props.C17
