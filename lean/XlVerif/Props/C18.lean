/-
  C18 — date serials and date functions follow the 1900 date system.

  Property theorems about `Model.C18` (the statement-by-statement mirror of xlfunctions/utils.py and
  xlfunctions/date.py) against `Spec.C18` (Excel's 1900 date system over the Gregorian calendar).  They
  hold for *every* whole serial 1 … 2958465 (without Excel's fictitious serial 60), every (year, month, day)
  triple, every month offset, every WEEKDAY return type.  The proofs are in `Lemmas/C18Fn.lean`; they rest
  on the civil-calendar bijection of `Lemmas/C18Cal.lean`, which is proved arithmetically for all of ℤ
  (a 400-row year table checked by `decide`, everything else linear arithmetic), not by enumeration.
  The correspondence check (harness/props/c18.py) ties `Model.C18` to the running code.

  Known findings kept as goals with kernel-checked counter-examples: D45 (time of day on the way
  datetime → serial), D1803 (30/360 on 28 February), D1804 (basis 1 is the AFB convention).
-/
import XlVerif.Lemmas.C18Fn
namespace XlVerif.Props.C18
open XlVerif XlVerif.Model.C18
open XlVerif.Lemmas.C18Cal (Valid)
open XlVerif.Lemmas.C18Spec (toSpec)
open XlVerif.Lemmas.C18Fn (IsSerial dayOf dateOf serialRes rowOK tableOK)
open XlVerif.Spec.C18 (Date ordinal daysBeforeYear serialOf serialOfOrdinal nextDay IsDateOf)

/-! ### The civil calendar of the model: a bijection between ℤ and the dates of the calendar -/

/-- `civil_bijection`: for every day count `z` (all of ℤ, no enumeration) civil-from-days yields a date
    of the proleptic Gregorian calendar that days-from-civil maps back to `z`, and every date of the
    calendar is reached: the two conversions are mutually inverse -/
theorem civil_bijection :
    (∀ z : Int, Valid (civilFromDays z) ∧ daysFromCivil (civilFromDays z) = z) ∧
    (∀ c : YMD, Valid c → civilFromDays (daysFromCivil c) = c) :=
  ⟨fun z => ⟨Lemmas.C18Cal.civil_valid z, Lemmas.C18Cal.days_civil z⟩, Lemmas.C18Cal.civil_days⟩

example : Valid ⟨2024, 2, 29⟩ ∧ ¬ Valid ⟨1900, 2, 29⟩ ∧ Valid ⟨-400, 2, 29⟩ := by decide

/-! ### The reference (`Spec.C18`): the closed form is the 1900 system of the statement -/

/-- the three anchors of the statement -/
example : serialOf ⟨1900, 1, 1⟩ = 1 ∧ serialOf ⟨1900, 2, 28⟩ = 59 ∧ serialOf ⟨1900, 3, 1⟩ = 61 := by decide

/-- the day after a date of the calendar is a date of the calendar, and its serial is one more —
    except after 1900-02-28, where Excel's fictitious leap day makes it two more -/
theorem serialOf_nextDay (c : Date) (hv : c.Valid) :
    (nextDay c).Valid ∧
    serialOf (nextDay c) = if c = ⟨1900, 2, 28⟩ then serialOf c + 2 else serialOf c + 1 := by
  have h := Lemmas.C18SpecCal.nextDay_spec c hv
  refine ⟨h.1, ?_⟩
  have hinj : ordinal c = 693654 → c = ⟨1900, 2, 28⟩ := by
    intro ho
    apply Lemmas.C18SpecCal.serialOf_injective c ⟨1900, 2, 28⟩ hv (by decide)
    unfold serialOf; rw [ho]; decide
  unfold serialOf
  rw [h.2]
  unfold serialOfOrdinal
  simp only []
  by_cases hc : c = ⟨1900, 2, 28⟩
  · subst hc; decide
  · rw [if_neg hc]
    have : ordinal c ≠ 693654 := fun ho => hc (hinj ho)
    split <;> split <;> omega

example : (⟨2023, 12, 31⟩ : Date).Valid ∧ nextDay ⟨2023, 12, 31⟩ = ⟨2024, 1, 1⟩
    ∧ nextDay ⟨2024, 2, 28⟩ = ⟨2024, 2, 29⟩ ∧ nextDay ⟨2023, 2, 28⟩ = ⟨2023, 3, 1⟩ := by decide

/-- the serial is strictly increasing along the calendar; in particular no two dates share a serial -/
theorem serialOf_strictMono (a b : Date) (ha : a.Valid) (hb : b.Valid) (h : a.lt b) :
    serialOf a < serialOf b := Lemmas.C18SpecCal.serialOf_lt a b ha hb h

theorem serialOf_injective (a b : Date) (ha : a.Valid) (hb : b.Valid) (h : serialOf a = serialOf b) :
    a = b := Lemmas.C18SpecCal.serialOf_injective a b ha hb h

example : (⟨2020, 1, 31⟩ : Date).Valid ∧ (⟨2020, 2, 1⟩ : Date).Valid ∧ (⟨2020, 1, 31⟩ : Date).lt ⟨2020, 2, 1⟩ := by
  decide

/-! ### The serial ↔ date conversion of the code on whole days -/

/-- serial → date → serial is the identity on every whole serial -/
theorem serial_roundtrip (n : Int) (h : IsSerial n) :
    (numberToDatetime (.int n)).map datetimeToNumber = .ok (n : Rat) := by
  apply Lemmas.C18Fn.serial_roundtrip <;> assumption

/-- date → serial → date is the identity on every day 1900-01-01 … 9999-12-31 -/
theorem datetime_roundtrip (d : Int) (h0 : 0 ≤ d) (h1 : d ≤ maxDay) :
    numberToDatetime (.flt (datetimeToNumber ⟨d, 0⟩)) = .ok ⟨d, 0⟩ := by
  apply Lemmas.C18Fn.datetime_roundtrip <;> assumption

/-- every day of the date system is the day of exactly one serial -/
theorem serial_onto (d : Int) (h0 : 0 ≤ d) (h1 : d ≤ maxDay) :
    IsSerial (d + (if d > 58 then 2 else 1)) ∧ dayOf (d + (if d > 58 then 2 else 1)) = d := by
  apply Lemmas.C18Fn.serial_onto <;> assumption

/-- the conversion is strictly monotone in both directions -/
theorem serial_monotone (n n' : Int) (h : IsSerial n) (h' : IsSerial n') (hlt : n < n') :
    dayOf n < dayOf n' := by
  apply Lemmas.C18Fn.serial_monotone <;> assumption

theorem datetime_monotone (d d' : Int) (hlt : d < d') :
    datetimeToNumber ⟨d, 0⟩ < datetimeToNumber ⟨d', 0⟩ := by
  apply Lemmas.C18Fn.datetime_monotone <;> assumption

example : IsSerial 43831 ∧ IsSerial 1 ∧ IsSerial 59 ∧ IsSerial 61 ∧ IsSerial 2958465 ∧ ¬ IsSerial 60 := by decide

/-- the date of a serial is a date of the Gregorian calendar whose 1900-system serial is `n`:
    together with `serialOf_injective` this determines it -/
theorem serial_date_spec (n : Int) (h : IsSerial n) : IsDateOf n (dateOf n) := by
  apply Lemmas.C18Fn.serial_date_spec <;> assumption

/-- the anchors of the statement -/
example : dateOf 1 = ⟨1900, 1, 1⟩ := by decide
example : dateOf 59 = ⟨1900, 2, 28⟩ := by decide
example : dateOf 61 = ⟨1900, 3, 1⟩ := by decide
example : dateOf 2958465 = ⟨9999, 12, 31⟩ := by decide

/-- consecutive serials are consecutive calendar days (61 follows 59: serial 60 is no day) -/
theorem serial_succ (n : Int) (h : IsSerial n) (h' : IsSerial (n + 1)) :
    dateOf (n + 1) = nextDay (dateOf n) := by
  apply Lemmas.C18Fn.serial_succ <;> assumption

theorem serial_succ_leap_gap : dateOf 61 = nextDay (dateOf 59) := by decide

/-- the reference serial is strictly increasing along the calendar and hits every whole serial but 60 -/
theorem serialOf_bijection :
    (∀ a b : Date, a.Valid → b.Valid → a.lt b → serialOf a < serialOf b) ∧
    (∀ n : Int, IsSerial n → ∃ c : Date, c.Valid ∧ serialOf c = n) := by
  apply Lemmas.C18Fn.serialOf_bijection <;> assumption

/-! ### YEAR, MONTH, DAY of every serial are the Gregorian fields -/

/-- the year of a serial of the date system lies in 1900 … 9999 -/
theorem year_range (n : Int) (h : IsSerial n) : 1900 ≤ (dateOf n).y ∧ (dateOf n).y ≤ 9999 := by
  apply Lemmas.C18Fn.year_range <;> assumption

/-- `fields_spec`: for every serial 61 … 2958465 (and 1 … 59) YEAR, MONTH and DAY return the fields of
    the one Gregorian date whose 1900-system serial is `n` -/
theorem fields_spec (n : Int) (h : IsSerial n) :
    ∃ c : Date, IsDateOf n c ∧ (∀ c' : Date, IsDateOf n c' → c' = c) ∧
      YEAR (.int n) = .ok c.y ∧ MONTH (.int n) = .ok c.m ∧ DAY (.int n) = .ok c.d := by
  apply Lemmas.C18Fn.fields_spec <;> assumption

/-! ### WEEKDAY: every return type is the documented rotation of the ISO weekday -/

/-- table obligation on the tables observed by probing the running WEEKDAY (`Gen.C18Date`): the default tuple is return
    type 1, every row lists for Monday … Sunday the numbers of the return type its key stands for (so a
    key outside 1, 2, 3, 11 … 17 or a tuple that is too short cannot occur), and every documented return
    type has a row.  Re-checked against what the code does now on every run. -/
theorem weekday_tables : tableOK = true := by decide

/-- `weekday_types`: for every serial and every return type — omitted, valid or invalid — WEEKDAY is
    the reference numbering of the date's ISO weekday, or #NUM! -/
theorem weekday_spec (n : Int) (h : IsSerial n) (rt : Option Int) :
    WEEKDAY (.int n) (rt.map Num.int) =
      match Spec.C18.weekdayNum (rt.getD 1) (Spec.C18.isoWeekday (dateOf n)) with
      | some v => .ok v
      | none => .err .num := by
  apply Lemmas.C18Fn.weekday_spec <;> assumption

example : Spec.C18.weekdayNum 1 7 = some 1 ∧ Spec.C18.weekdayNum 2 1 = some 1 ∧ Spec.C18.weekdayNum 3 1 = some 0
    ∧ Spec.C18.weekdayNum 12 2 = some 1 ∧ Spec.C18.weekdayNum 16 6 = some 1 ∧ Spec.C18.weekdayNum 17 7 = some 1
    ∧ Spec.C18.weekdayNum 4 1 = none ∧ Spec.C18.isoWeekday ⟨2000, 1, 1⟩ = 6 := by decide

/-! ### ISOWEEKNUM -/

/-- Python's `isocalendar` week of any day is the ISO 8601 week of its Gregorian date -/
theorem isoWeek_spec (day : Int) : isoWeek ⟨day, 0⟩ = Spec.C18.isoWeek (toSpec (DT.ymd ⟨day, 0⟩)) := by
  apply Lemmas.C18Fn.isoWeek_spec <;> assumption

/-- `isoweek_spec`: ISOWEEKNUM of every serial is the ISO 8601 week number of its date -/
theorem isoweeknum_spec (n : Int) (h : IsSerial n) :
    ISOWEEKNUM ⟨dayOf n, 0⟩ = .ok (Spec.C18.isoWeek (dateOf n)) := by
  apply Lemmas.C18Fn.isoweeknum_spec <;> assumption

example : Spec.C18.isoWeek ⟨2021, 1, 3⟩ = 53 ∧ Spec.C18.isoWeek ⟨2021, 1, 4⟩ = 1
    ∧ Spec.C18.isoWeek ⟨2019, 12, 30⟩ = 1 ∧ Spec.C18.isoWeek ⟨2020, 12, 31⟩ = 53 := by decide

/-! ### DATE -/

/-- the closed form of `DATE`: arguments truncated, year rule, month carry by floor division, day offset,
    then the range checks of the code (`datetime` exists for years 1 … 9999 only; outside → #NUM!) -/
theorem DATE_closed (year month day : Num) (hy0 : 0 ≤ pyInt year) (hy1 : pyInt year ≤ 9999) :
    DATE year month day =
      let y' := if pyInt year < 1900 then 1900 + pyInt year else pyInt year
      let ym := Spec.C18.monthShift y' 1 (pyInt month - 1)
      if ym.1 < 1 ∨ ym.1 > 9999 then .err .num else
      let dd := ordinal ⟨ym.1, ym.2, 1⟩ + (pyInt day - 1) - 693596
      if dd < -693595 ∨ dd > 2958463 then .err .num else
      if dd < 0 then .err .num else .ok ⟨dd, 0⟩ := by
  apply Lemmas.C18Fn.DATE_closed <;> assumption

example : (0 : Int) ≤ pyInt (.flt (4041 / 2)) ∧ pyInt (.flt (4041 / 2)) ≤ 9999 := by decide +kernel

/-- `date_carry`: for all whole arguments DATE agrees with the reference — months and days outside
    their ranges carry into the next units, years 0 … 1899 count from 1900, and a year outside 0 … 9999
    or a result outside 1900-01-01 … 9999-12-31 is #NUM! — provided the month offset alone stays within
    the years 1 … 9999 of a `datetime` (otherwise the code answers #NUM! whatever the day offset) -/
theorem date_carry (y m d : Int)
    (hrange : 0 ≤ y ∧ y ≤ 9999 →
      1 ≤ (Spec.C18.monthShift (if y < 1900 then 1900 + y else y) 1 (m - 1)).1 ∧
      (Spec.C18.monthShift (if y < 1900 then 1900 + y else y) 1 (m - 1)).1 ≤ 9999) :
    serialRes (DATE (.int y) (.int m) (.int d)) =
      match Spec.C18.date y m d with
      | some s => .ok (s : Rat)
      | none => .err .num := by
  apply Lemmas.C18Fn.date_carry <;> assumption

/-- D1805 (fixed): a result beyond 9999-12-31 or before year 1 is #NUM!, not a Python exception -/
example : DATE (.int 9999) (.int 12) (.int 32) = .err .num ∧ DATE (.int 9999) (.int 13) (.int 1) = .err .num
    ∧ DATE (.int 1900) (.int 1) (.int (-800000)) = .err .num := by decide

/-- non-vacuity of `date_carry`: far out-of-range months satisfy its hypothesis, for every day offset -/
example : 1 ≤ (Spec.C18.monthShift (if (2009 : Int) < 1900 then 1900 + 2009 else 2009) 1 (-401 - 1)).1 ∧
    (Spec.C18.monthShift (if (2009 : Int) < 1900 then 1900 + 2009 else 2009) 1 (-401 - 1)).1 ≤ 9999 := by decide
example : Spec.C18.date 2009 14 1 = some 40210 ∧ Spec.C18.date 2009 1 400 = some 40213
    ∧ Spec.C18.date 2009 (-1) 1 = some 39753 ∧ Spec.C18.date 1900 1 0 = none
    ∧ Spec.C18.date 9999 12 32 = none := by decide

/-- `date_inverse`: DATE(YEAR(n), MONTH(n), DAY(n)) = n for every serial -/
theorem date_inverse (n : Int) (h : IsSerial n) :
    DATE (.int (dateOf n).y) (.int (dateOf n).m) (.int (dateOf n).d) = .ok ⟨dayOf n, 0⟩ := by
  apply Lemmas.C18Fn.date_inverse <;> assumption

theorem date_inverse_serial (n : Int) (h : IsSerial n) :
    serialRes (DATE (.int (dateOf n).y) (.int (dateOf n).m) (.int (dateOf n).d)) = .ok (n : Rat) := by
  apply Lemmas.C18Fn.date_inverse_serial <;> assumption

/-! ### EDATE and EOMONTH -/

/-- `edate_clip`: EDATE moves every serial by whole months and clips the day to the end of the target
    month; a result outside 1900-01-01 … 9999-12-31 is #NUM! -/
theorem edate_clip (n k : Int) (h : IsSerial n) :
    serialRes (EDATE ⟨dayOf n, 0⟩ (.int k)) =
      match Spec.C18.edate (dateOf n) k with
      | some s => .ok (s : Rat)
      | none => .err .num := by
  apply Lemmas.C18Fn.edate_clip <;> assumption

/-- `eomonth`: EOMONTH is the last day of the month reached by moving whole months -/
theorem eomonth_spec (n k : Int) (h : IsSerial n) :
    EOMONTH ⟨dayOf n, 0⟩ (.int k) =
      match Spec.C18.eomonth (dateOf n) k with
      | some s => .ok (s : Rat)
      | none => .err .num := by
  apply Lemmas.C18Fn.eomonth_spec <;> assumption

/-- non-vacuity: 31 January + 1 month clips to the end of February; the leap day is kept in 2020;
    D1801 (fixed): 1900-02-01 minus one month is serial 1; D1805 (fixed): beyond 9999 is #NUM! -/
example : IsSerial 43861 ∧ dateOf 43861 = ⟨2020, 1, 31⟩ ∧ Spec.C18.edate (dateOf 43861) 1 = some 43890
    ∧ Spec.C18.addMonths (dateOf 43861) 1 = ⟨2020, 2, 29⟩ ∧ Spec.C18.addMonths (dateOf 43861) 13 = ⟨2021, 2, 28⟩
    ∧ Spec.C18.eomonth (dateOf 43861) (-2) = some 43799 ∧ Spec.C18.edate (dateOf 32) (-1) = some 1
    ∧ Spec.C18.eomonth (dateOf 1) 0 = some 31 ∧ Spec.C18.edate (dateOf 2958465) 1 = none := by decide

/-! ### The fraction of a serial is the time of day (and D45: not on the way back) -/

/-- serial → datetime puts the fraction of the serial into the time of day, on every serial
    (also on serial 59, D1802) -/
theorem fraction_is_time (n : Int) (f : Rat) (h : IsSerial n) (hf0 : 0 ≤ f) (hf1 : f < 1) :
    numberToDatetime (.flt ((n : Rat) + f)) = .ok ⟨dayOf n, f * 86400⟩ := by
  apply Lemmas.C18Fn.fraction_is_time <;> assumption

example : numberToDatetime (.flt ((59 : Int) + 1 / 2)) = .ok ⟨58, 43200⟩ := by
  rw [Lemmas.C18Fn.fraction_is_time 59 (1 / 2) (by decide) (by norm_num) (by norm_num)]
  simp [dayOf]; norm_num

/-
  D45 (known finding, hard-coded in tests/xlfunctions/test_xltypes.py).  GOAL, full strength:

    theorem time_is_fraction (d : Int) (s : Rat) (h0 : 0 ≤ s) (h1 : s < 86400) :
        datetimeToNumber ⟨d, s⟩ = ((d + (if d > 58 then 2 else 1) : Int) : Rat) + s / 86400

  It is FALSE for the code as written (`delta.seconds / 24 * 60 * 60` multiplies by 150 instead of
  dividing by 86400): the kernel-checked counter-example below is 2020-01-01 12:00.
-/

theorem time_is_fraction_counterexample :
    datetimeToNumber ⟨43829, 43200⟩ = 6523831 ∧ (6523831 : Rat) ≠ 43831 + 43200 / 86400 :=
  Lemmas.C18Fn.time_is_fraction_counterexample

/-- what the code does compute: 150 "days" per second -/
theorem datetime_to_number_as_coded (d : Int) (s : Int) :
    datetimeToNumber ⟨d, (s : Rat)⟩ = ((d + (if d > 58 then 2 else 1) : Int) : Rat) + 150 * (s : Rat) := by
  apply Lemmas.C18Fn.datetime_to_number_as_coded <;> assumption

/-- the guarded version that holds: at midnight the serial is whole and exact -/
theorem time_is_fraction_partial (d : Int) :
    datetimeToNumber ⟨d, 0⟩ = ((d + (if d > 58 then 2 else 1) : Int) : Rat) + 0 / 86400 := by
  apply Lemmas.C18Fn.time_is_fraction_partial <;> assumption

/-! ### DAYS, DATEDIF, YEARFRAC -/

/-- `days_sub`: DAYS is the difference of the serials; on one side of the fictitious 29 February 1900
    that is the number of calendar days between the dates -/
theorem days_sub (n1 n2 : Int) (_h1 : IsSerial n1) (_h2 : IsSerial n2) :
    DAYS ⟨dayOf n2, 0⟩ ⟨dayOf n1, 0⟩ = .ok ((n2 - n1 : Int) : Rat) := by
  apply Lemmas.C18Fn.days_sub <;> assumption

theorem days_calendar (n1 n2 : Int) (h1 : IsSerial n1) (h2 : IsSerial n2)
    (hside : (n1 < 60 ∧ n2 < 60) ∨ (60 < n1 ∧ 60 < n2)) :
    n2 - n1 = ordinal (dateOf n2) - ordinal (dateOf n1) := by
  apply Lemmas.C18Fn.days_calendar <;> assumption

example : IsSerial 43831 ∧ IsSerial 43800 ∧ ((43800 : Int) < 60 ∧ (43831 : Int) < 60 ∨ (60 : Int) < 43800 ∧ (60 : Int) < 43831) := by decide

/-- `datedif_spec`: for two serials in order, DATEDIF gives the calendar days ("D"), the complete
    months ("M") and the complete years ("Y") between the dates, in either letter case -/
theorem datedif_spec (n1 n2 : Int) (h1 : IsSerial n1) (h2 : IsSerial n2) (hle : n1 ≤ n2) :
    DATEDIF ⟨dayOf n1, 0⟩ ⟨dayOf n2, 0⟩ ['D'] = .ok (ordinal (dateOf n2) - ordinal (dateOf n1)) ∧
    DATEDIF ⟨dayOf n1, 0⟩ ⟨dayOf n2, 0⟩ ['M'] = .ok (Spec.C18.completeMonths (dateOf n1) (dateOf n2)) ∧
    DATEDIF ⟨dayOf n1, 0⟩ ⟨dayOf n2, 0⟩ ['Y'] = .ok (Spec.C18.completeYears (dateOf n1) (dateOf n2)) ∧
    DATEDIF ⟨dayOf n1, 0⟩ ⟨dayOf n2, 0⟩ ['d'] = DATEDIF ⟨dayOf n1, 0⟩ ⟨dayOf n2, 0⟩ ['D'] ∧
    DATEDIF ⟨dayOf n1, 0⟩ ⟨dayOf n2, 0⟩ ['m'] = DATEDIF ⟨dayOf n1, 0⟩ ⟨dayOf n2, 0⟩ ['M'] ∧
    DATEDIF ⟨dayOf n1, 0⟩ ⟨dayOf n2, 0⟩ ['y'] = DATEDIF ⟨dayOf n1, 0⟩ ⟨dayOf n2, 0⟩ ['Y'] := by
  apply Lemmas.C18Fn.datedif_spec <;> assumption

/-- D47 (fixed): from a 31st, the months that lack a 31st are no longer skipped -/
example : IsSerial 43861 ∧ IsSerial 44255 ∧ dateOf 43861 = ⟨2020, 1, 31⟩ ∧ dateOf 44255 = ⟨2021, 2, 28⟩ ∧
    Spec.C18.completeMonths (dateOf 43861) (dateOf 44255) = 12 ∧
    Spec.C18.completeYears (dateOf 43861) (dateOf 44255) = 1 := by decide

/-- `yearfrac_23`: on the actual bases YEARFRAC is the number of calendar days between the dates
    divided by 360 (basis 2) and by 365 (basis 3), whatever the order of the arguments -/
theorem yearfrac_23 (n1 n2 : Int) (h1 : IsSerial n1) (h2 : IsSerial n2) (hle : n1 ≤ n2) :
    YEARFRAC ⟨dayOf n1, 0⟩ ⟨dayOf n2, 0⟩ (.int 2)
      = .ok (((ordinal (dateOf n2) - ordinal (dateOf n1) : Int) : Rat) / 360) ∧
    YEARFRAC ⟨dayOf n2, 0⟩ ⟨dayOf n1, 0⟩ (.int 2)
      = .ok (((ordinal (dateOf n2) - ordinal (dateOf n1) : Int) : Rat) / 360) ∧
    YEARFRAC ⟨dayOf n1, 0⟩ ⟨dayOf n2, 0⟩ (.int 3)
      = .ok (((ordinal (dateOf n2) - ordinal (dateOf n1) : Int) : Rat) / 365) ∧
    YEARFRAC ⟨dayOf n2, 0⟩ ⟨dayOf n1, 0⟩ (.int 3)
      = .ok (((ordinal (dateOf n2) - ordinal (dateOf n1) : Int) : Rat) / 365) := by
  apply Lemmas.C18Fn.yearfrac_23 <;> assumption

/-- a basis outside 0 … 4 is #VALUE! -/
theorem yearfrac_bad_basis (n1 n2 : Int) (h1 : IsSerial n1) (h2 : IsSerial n2) (hle : n1 ≤ n2) (b : Int)
    (hb : b < 0 ∨ 4 < b) : YEARFRAC ⟨dayOf n1, 0⟩ ⟨dayOf n2, 0⟩ (.int b) = .err .value := by
  apply Lemmas.C18Fn.yearfrac_bad_basis <;> assumption

/-
  Bases 0 and 4 (30/360).  GOAL, full strength, on the dates where the US and the European convention
  coincide with the plain count (`Spec.C18.Plain360`: day ≤ 28, and not the last day of February):

    theorem yearfrac_30360 (a b : YMD) (ha : Plain360 (toSpec a)) (hb : Plain360 (toSpec b))
        (hle : 0 ≤ days360 (toSpec a) (toSpec b)) (matu : Bool) :
        d30360e a b matu = .ok ((days360 (toSpec a) (toSpec b) : Rat) / 360)

  It is FALSE for the `yearfrac` package conventions the code calls (finding D1803): the package
  treats *every* 28 February as day 30 — also in a leap year, where it is not the end of the month.
  Kernel-checked counter-example: 2020-02-28 → 2020-03-28 is 30 days on every 30/360 convention.
-/

theorem yearfrac_30360_counterexample :
    Spec.C18.Plain360 ⟨2020, 2, 28⟩ ∧ Spec.C18.Plain360 ⟨2020, 3, 28⟩ ∧
    Spec.C18.days360 ⟨2020, 2, 28⟩ ⟨2020, 3, 28⟩ = 30 ∧
    d30360e ⟨2020, 2, 28⟩ ⟨2020, 3, 28⟩ true = .ok (28 / 360) ∧
    d30360e ⟨2020, 2, 28⟩ ⟨2020, 3, 28⟩ false = .ok (28 / 360) :=
  Lemmas.C18Fn.yearfrac_30360_counterexample

example : (15 : Int) ≤ 28 ∧ ¬ ((3 : Int) = 2 ∧ (15 : Int) = 28) := by decide

/-- with `YEARFRAC_whole`: bases 0 and 4 on two serials none of which is a 28 February or a 29th-31st -/
theorem yearfrac_04_partial (n1 n2 : Int) (h1 : IsSerial n1) (h2 : IsSerial n2) (hle : n1 ≤ n2)
    (ha : (dateOf n1).d ≤ 28 ∧ ¬ ((dateOf n1).m = 2 ∧ (dateOf n1).d = 28))
    (hb : (dateOf n2).d ≤ 28 ∧ ¬ ((dateOf n2).m = 2 ∧ (dateOf n2).d = 28))
    (hpos : 0 ≤ Spec.C18.days360 (dateOf n1) (dateOf n2)) :
    YEARFRAC ⟨dayOf n1, 0⟩ ⟨dayOf n2, 0⟩ (.int 0) = .ok ((Spec.C18.days360 (dateOf n1) (dateOf n2) : Rat) / 360) ∧
    YEARFRAC ⟨dayOf n1, 0⟩ ⟨dayOf n2, 0⟩ (.int 4) = .ok ((Spec.C18.days360 (dateOf n1) (dateOf n2) : Rat) / 360) := by
  apply Lemmas.C18Fn.yearfrac_04_partial <;> assumption

example : IsSerial 43905 ∧ IsSerial 44301 ∧ dateOf 43905 = ⟨2020, 3, 15⟩ ∧ dateOf 44301 = ⟨2021, 4, 15⟩ ∧
    Spec.C18.days360 (dateOf 43905) (dateOf 44301) = 390 := by decide

/-
  Basis 1 (actual/actual).  GOAL: `actAfb a b = .ok r` with `|r - Spec.C18.yearfrac1 a b| < 1/1000`
  for all dates a ≤ b of the date system.  FALSE (finding D1804): the code calls the AFB convention of
  the `yearfrac` package, which divides a period inside a leap year but after February by 365 where
  Excel's actual/actual divides by 366, and counts whole years where Excel averages year lengths.
  Kernel-checked counter-example: 2012-03-01 → 2012-12-31 is 305 days.
-/

theorem yearfrac_1_counterexample :
    actAfb ⟨2012, 3, 1⟩ ⟨2012, 12, 31⟩ = .ok (305 / 365) ∧
    Spec.C18.yearfrac1 ⟨2012, 3, 1⟩ ⟨2012, 12, 31⟩ = 305 / 366 ∧
    ((305 : Rat) / 365 - 305 / 366 > 1 / 1000) :=
  Lemmas.C18Fn.yearfrac_1_counterexample

/-- the guarded version that holds exactly: both dates in one common (non-leap) year -/
theorem yearfrac_1_partial (a b : YMD) (ha : Valid a) (hb : Valid b) (hy : a.y = b.y) (hl : ¬ Leap a.y)
    (hle : ordinal (toSpec a) < ordinal (toSpec b)) :
    actAfb a b = .ok (Spec.C18.yearfrac1 (toSpec a) (toSpec b)) := by
  apply Lemmas.C18Fn.yearfrac_1_partial <;> assumption

example : Valid ⟨2021, 3, 1⟩ ∧ Valid ⟨2021, 12, 31⟩ ∧ ¬ Leap 2021 := by decide

end XlVerif.Props.C18
