/-
  C18 — date serials and date functions follow the 1900 date system.

  Theorems are about `Model.C18` (the statement-by-statement mirror of utils.py and date.py) against
  `Spec.C18` (the 1900 system over the Gregorian calendar) and hold for *every* whole serial, every
  (year, month, day) triple, every month offset.  The civil-calendar bijection they rest on is proved
  arithmetically in `Lemmas/C18Cal.lean`; the correspondence check ties `Model.C18` to the running code.
-/
import XlVerif.Lemmas.C18Spec
import XlVerif.Lemmas.C18Iso
namespace XlVerif.Props.C18
open XlVerif XlVerif.Model.C18 XlVerif.Lemmas.C18Cal XlVerif.Lemmas.C18Spec XlVerif.Lemmas.C18SpecCal
open XlVerif.Spec.C18 (Date ordinal daysBeforeYear serialOf serialOfOrdinal nextDay IsDateOf)

/-! ### The serial ↔ date conversion on whole days -/

/-- the whole serials that denote a day: 1 … 2958465 without Excel's fictitious 29 February 1900 -/
abbrev IsSerial (n : Int) : Prop := 1 ≤ n ∧ n ≤ 2958465 ∧ n ≠ 60

/-- days from 1900-01-01 to the day of serial `n` -/
def dayOf (n : Int) : Int := n - (if n ≥ 60 then 2 else 1)

/-- the calendar date the model assigns to serial `n` -/
def dateOf (n : Int) : Date := toSpec (DT.ymd ⟨dayOf n, 0⟩)

theorem minDay_eq : minDay = -693595 := rfl
theorem maxDay_eq : maxDay = 2958463 := rfl

theorem mkDT_ok (d : Int) (s : Rat) (h0 : -693595 ≤ d) (h1 : d ≤ 2958463) : mkDT d s = .ok ⟨d, s⟩ := by
  unfold mkDT; rw [if_neg (by rw [minDay_eq, maxDay_eq]; omega)]

theorem number_to_datetime_whole (n : Int) (h : IsSerial n) :
    numberToDatetime (.int n) = .ok ⟨dayOf n, 0⟩ := by
  rw [numberToDatetime_int]; unfold dayOf
  apply mkDT_ok <;> split <;> omega

/-- serial → date → serial is the identity on every whole serial -/
theorem serial_roundtrip (n : Int) (h : IsSerial n) :
    (numberToDatetime (.int n)).map datetimeToNumber = .ok (n : Rat) := by
  rw [number_to_datetime_whole n h]
  unfold Res.map dayOf
  simp only []
  rw [datetimeToNumber_whole]
  congr 2
  split <;> split <;> omega

/-- date → serial → date is the identity on every day 1900-01-01 … 9999-12-31 -/
theorem datetime_roundtrip (d : Int) (h0 : 0 ≤ d) (h1 : d ≤ maxDay) :
    numberToDatetime (.flt (datetimeToNumber ⟨d, 0⟩)) = .ok ⟨d, 0⟩ := by
  rw [datetimeToNumber_whole, numberToDatetime_flt_int, numberToDatetime_int]
  rw [maxDay_eq] at h1
  have e : (d + (if d > 58 then 2 else 1) - if d + (if d > 58 then 2 else 1) ≥ 60 then 2 else 1) = d := by
    split <;> split <;> omega
  rw [e]
  apply mkDT_ok <;> omega

/-- every day of the date system is the day of exactly one serial -/
theorem serial_onto (d : Int) (h0 : 0 ≤ d) (h1 : d ≤ maxDay) :
    IsSerial (d + (if d > 58 then 2 else 1)) ∧ dayOf (d + (if d > 58 then 2 else 1)) = d := by
  rw [maxDay_eq] at h1; unfold dayOf IsSerial
  split <;> (try split) <;> omega

/-- the conversion is strictly monotone in both directions -/
theorem serial_monotone (n n' : Int) (h : IsSerial n) (h' : IsSerial n') (hlt : n < n') :
    dayOf n < dayOf n' := by
  unfold dayOf; split <;> split <;> omega

theorem datetime_monotone (d d' : Int) (hlt : d < d') :
    datetimeToNumber ⟨d, 0⟩ < datetimeToNumber ⟨d', 0⟩ := by
  rw [datetimeToNumber_whole, datetimeToNumber_whole, Rat.intCast_lt_intCast]
  split <;> split <;> omega

example : IsSerial 43831 := by decide

/-- the date of a serial is a date of the Gregorian calendar whose 1900-system serial is `n`:
    together with `serialOf_injective` this determines it -/
theorem serial_date_spec (n : Int) (h : IsSerial n) : IsDateOf n (dateOf n) := by
  have hs := spec_of_civil (dayOf n + epochCivil)
  unfold dateOf DT.ymd
  simp only []
  refine ⟨hs.1, ?_⟩
  unfold serialOf
  rw [hs.2]
  unfold serialOfOrdinal dayOf epochCivil
  simp only []
  split <;> split <;> omega

/-- the anchors of the statement -/
example : dateOf 1 = ⟨1900, 1, 1⟩ := by decide
example : dateOf 59 = ⟨1900, 2, 28⟩ := by decide
example : dateOf 61 = ⟨1900, 3, 1⟩ := by decide
example : dateOf 2958465 = ⟨9999, 12, 31⟩ := by decide
example : serialOf ⟨1900, 1, 1⟩ = 1 ∧ serialOf ⟨1900, 2, 28⟩ = 59 ∧ serialOf ⟨1900, 3, 1⟩ = 61 := by decide

/-- consecutive serials are consecutive calendar days (61 follows 59: serial 60 is no day) -/
theorem serial_succ (n : Int) (h : IsSerial n) (h' : IsSerial (n + 1)) :
    dateOf (n + 1) = nextDay (dateOf n) := by
  have h1 := serial_date_spec n h
  have h2 := serial_date_spec (n + 1) h'
  have hn := nextDay_spec (dateOf n) h1.1
  apply serialOf_injective _ _ h2.1 hn.1
  rw [h2.2]
  have := h1.2
  unfold serialOf at this ⊢
  rw [hn.2]
  unfold serialOfOrdinal at this ⊢
  simp only [] at this ⊢
  split at this <;> split <;> omega

theorem serial_succ_leap_gap : dateOf 61 = nextDay (dateOf 59) := by decide

/-- the reference serial is strictly increasing along the calendar and hits every whole serial but 60 -/
theorem serialOf_bijection :
    (∀ a b : Date, a.Valid → b.Valid → a.lt b → serialOf a < serialOf b) ∧
    (∀ n : Int, IsSerial n → ∃ c : Date, c.Valid ∧ serialOf c = n) :=
  ⟨serialOf_lt, fun n h => ⟨dateOf n, serial_date_spec n h⟩⟩


/-! ### YEAR, MONTH, DAY of every serial are the Gregorian fields -/

theorem serialDate_whole (n : Int) (h : IsSerial n) : serialDate (.int n) = .ok ⟨dayOf n, 0⟩ := by
  unfold serialDate pyInt; exact number_to_datetime_whole n h

/-- the year of a serial of the date system lies in 1900 … 9999 -/
theorem year_range (n : Int) (h : IsSerial n) : 1900 ≤ (dateOf n).y ∧ (dateOf n).y ≤ 9999 := by
  have hs := serial_date_spec n h
  have hb := ordinal_bounds (dateOf n) hs.1
  have hser := hs.2
  unfold serialOf serialOfOrdinal at hser
  simp only [] at hser
  have e1 : daysBeforeYear 1900 = 693595 := by decide
  have e2 : daysBeforeYear 10000 = 3652059 := by decide
  constructor
  · apply Classical.byContradiction; intro hc
    have := dby_mono ((dateOf n).y + 1) 1900 (by omega)
    split at hser <;> omega
  · apply Classical.byContradiction; intro hc
    have := dby_mono 10000 (dateOf n).y (by omega)
    split at hser <;> omega

theorem year_spec (n : Int) (h : IsSerial n) : YEAR (.int n) = .ok (dateOf n).y := by
  have hr := year_range n h
  unfold YEAR
  rw [serialDate_whole n h]
  unfold Res.bind
  simp only []
  have e : (DT.ymd ⟨dayOf n, 0⟩).y = (dateOf n).y := rfl
  rw [e, if_neg (by omega)]

theorem month_spec (n : Int) (h : IsSerial n) : MONTH (.int n) = .ok (dateOf n).m := by
  unfold MONTH; rw [serialDate_whole n h]; rfl

theorem day_spec (n : Int) (h : IsSerial n) : DAY (.int n) = .ok (dateOf n).d := by
  unfold DAY; rw [serialDate_whole n h]; rfl

/-- `fields_spec`: for every serial 61 … 2958465 (and 1 … 59) YEAR, MONTH and DAY return the fields of
    the one Gregorian date whose 1900-system serial is `n` -/
theorem fields_spec (n : Int) (h : IsSerial n) :
    ∃ c : Date, IsDateOf n c ∧ (∀ c' : Date, IsDateOf n c' → c' = c) ∧
      YEAR (.int n) = .ok c.y ∧ MONTH (.int n) = .ok c.m ∧ DAY (.int n) = .ok c.d := by
  refine ⟨dateOf n, serial_date_spec n h, ?_, year_spec n h, month_spec n h, day_spec n h⟩
  intro c' hc'
  have hs := serial_date_spec n h
  exact serialOf_injective c' (dateOf n) hc'.1 hs.1 (by rw [hc'.2, hs.2])

example : IsSerial 61 ∧ IsSerial 2958465 := by decide


/-! ### WEEKDAY: every return type is the documented rotation of the ISO weekday -/

/-- a tuple of `WEEKDAY` lists, for Monday … Sunday, the numbers of return type `rt`
    (in particular `rt` is a documented return type and the tuple has seven entries) -/
def rowOK (rt : Int) (tup : List Int) : Bool :=
  (List.range 7).all fun w =>
    (tup[w]?).isSome && tup[w]? == Spec.C18.weekdayNum rt ((w : Int) + 1)

/-- table obligation on the tuples extracted from date.py: the default is return type 1, every row is
    the rotation its key stands for (so a key outside 1, 2, 3, 11 … 17 cannot occur), and every
    documented return type has a row -/
def tableOK : Bool :=
  rowOK 1 Gen.weekdayDefault &&
  (Gen.weekdayTables.all fun p => rowOK p.1 p.2) &&
  ([1, 2, 3, 11, 12, 13, 14, 15, 16, 17].all fun k => (Gen.weekdayTables.lookup k).isSome)

theorem weekday_tables : tableOK = true := by decide

theorem lookup_mem {l : List (Int × List Int)} {k : Int} {v : List Int} (h : l.lookup k = some v) :
    (k, v) ∈ l := by
  induction l with
  | nil => simp [List.lookup] at h
  | cons p t ih =>
    obtain ⟨a, b⟩ := p
    by_cases hk : k = a
    · subst hk
      simp [List.lookup] at h
      subst h; simp
    · have : (k == a) = false := by simp [hk]
      simp [List.lookup, this] at h
      exact List.mem_cons_of_mem _ (ih h)

theorem rowOK_get {rt : Int} {tup : List Int} (h : rowOK rt tup = true) (w : Int) (h0 : 0 ≤ w) (h6 : w ≤ 6) :
    ∃ v, Spec.C18.weekdayNum rt (w + 1) = some v ∧ pick tup w = .ok v := by
  unfold rowOK at h
  rw [List.all_eq_true] at h
  have := h w.toNat (by rw [List.mem_range]; omega)
  have e : ((w.toNat : Nat) : Int) = w := by omega
  rw [e, Bool.and_eq_true] at this
  obtain ⟨h1, h2⟩ := this
  have h2 := eq_of_beq h2
  unfold pick
  cases hg : tup[w.toNat]? with
  | none => rw [hg] at h1; simp at h1
  | some v => exact ⟨v, by rw [← h2, hg], rfl⟩

theorem pyWeekday_spec (n : Int) (_h : IsSerial n) :
    pyWeekday ⟨dayOf n, 0⟩ = Spec.C18.isoWeekday (dateOf n) - 1 := by
  have hs := spec_of_civil (dayOf n + epochCivil)
  have e : ordinal (dateOf n) = dayOf n + epochCivil - 305 := hs.2
  unfold pyWeekday ordinalOfDay Spec.C18.isoWeekday
  rw [e]; unfold epochCivil; simp only []; omega

theorem isoWeekday_range (c : Date) : 1 ≤ Spec.C18.isoWeekday c ∧ Spec.C18.isoWeekday c ≤ 7 := by
  unfold Spec.C18.isoWeekday; omega

/-- `weekday_types`: for every serial and every return type — omitted, valid or invalid — WEEKDAY is
    the reference numbering of the date's ISO weekday, or #NUM! -/
theorem weekday_spec (n : Int) (h : IsSerial n) (rt : Option Int) :
    WEEKDAY (.int n) (rt.map Num.int) =
      match Spec.C18.weekdayNum (rt.getD 1) (Spec.C18.isoWeekday (dateOf n)) with
      | some v => .ok v
      | none => .err .num := by
  have htab := weekday_tables
  unfold tableOK at htab
  rw [Bool.and_eq_true, Bool.and_eq_true] at htab
  obtain ⟨⟨hdef, hrows⟩, hkeys⟩ := htab
  have hw := pyWeekday_spec n h
  have hr := isoWeekday_range (dateOf n)
  have hiso : Spec.C18.isoWeekday (dateOf n) = pyWeekday ⟨dayOf n, 0⟩ + 1 := by omega
  unfold WEEKDAY
  rw [serialDate_whole n h]
  unfold Res.bind
  simp only []
  rw [hiso]
  cases rt with
  | none =>
    simp only [Option.map, Option.getD]
    obtain ⟨v, hv, hp⟩ := rowOK_get hdef (pyWeekday ⟨dayOf n, 0⟩) (by omega) (by omega)
    rw [hv, hp]
  | some r =>
    simp only [Option.map, Option.getD, pyInt]
    cases hl : Gen.weekdayTables.lookup r with
    | some tup =>
      simp only []
      have hmem := lookup_mem hl
      rw [List.all_eq_true] at hrows
      have hrow := hrows (r, tup) hmem
      simp only [] at hrow
      obtain ⟨v, hv, hp⟩ := rowOK_get hrow (pyWeekday ⟨dayOf n, 0⟩) (by omega) (by omega)
      rw [hv, hp]
    | none =>
      simp only []
      have : Spec.C18.weekdayNum r (pyWeekday ⟨dayOf n, 0⟩ + 1) = none := by
        unfold Spec.C18.weekdayNum
        have hk : ∀ k ∈ [1, 2, 3, 11, 12, 13, 14, 15, 16, 17], r ≠ k := by
          intro k hk hrk
          rw [List.all_eq_true] at hkeys
          have := hkeys k hk
          rw [← hrk, hl] at this
          simp at this
        have n1 := hk 1 (by simp); have n2 := hk 2 (by simp); have n3 := hk 3 (by simp)
        have n11 := hk 11 (by simp); have n12 := hk 12 (by simp); have n13 := hk 13 (by simp)
        have n14 := hk 14 (by simp); have n15 := hk 15 (by simp); have n16 := hk 16 (by simp)
        have n17 := hk 17 (by simp)
        rw [if_neg n1, if_neg n2, if_neg n3, if_neg (by omega)]
      rw [this]


/-! ### ISOWEEKNUM -/

theorem ordinal_jan1 (y : Int) : ordinal ⟨y, 1, 1⟩ = daysBeforeYear y + 1 := by
  rw [ordinal_def]; simp [Spec.C18.cumDays, adj]

theorem isoWeek1Monday_eq (y : Int) : isoWeek1Monday y = Lemmas.C18Iso.w1 (daysBeforeYear y + 1) := by
  unfold isoWeek1Monday ymd2ord Lemmas.C18Iso.w1
  have := ordinal_eq y 1 1 (by omega) (by omega)
  rw [ordinal_jan1] at this
  simp only []
  rw [← this]

/-- Python's `isocalendar` week of any day is the ISO 8601 week of its Gregorian date -/
theorem isoWeek_spec (day : Int) : isoWeek ⟨day, 0⟩ = Spec.C18.isoWeek (toSpec (DT.ymd ⟨day, 0⟩)) := by
  have hs := spec_of_civil (day + epochCivil)
  have hb := ordinal_bounds _ hs.1
  have hst := dby_step (toSpec (DT.ymd ⟨day, 0⟩)).y
  have hst' := dby_step ((toSpec (DT.ymd ⟨day, 0⟩)).y - 1)
  have e : ordinal (toSpec (DT.ymd ⟨day, 0⟩)) = ordinalOfDay day := by
    unfold DT.ymd ordinalOfDay; simp only []; rw [hs.2]; unfold epochCivil; omega
  have ey : (DT.ymd ⟨day, 0⟩).y = (toSpec (DT.ymd ⟨day, 0⟩)).y := rfl
  have hb' : daysBeforeYear (toSpec (DT.ymd ⟨day, 0⟩)).y + 1 ≤ ordinalOfDay day ∧
      ordinalOfDay day ≤ daysBeforeYear ((toSpec (DT.ymd ⟨day, 0⟩)).y + 1) := by
    rw [← e]; exact hb
  unfold isoWeek Spec.C18.isoWeek Spec.C18.isoWeekday
  simp only []
  rw [e, ey, isoWeek1Monday_eq, isoWeek1Monday_eq, isoWeek1Monday_eq]
  simp only [ordinal_jan1]
  generalize (toSpec (DT.ymd ⟨day, 0⟩)).y = y at *
  generalize ordinalOfDay day = o at *
  have e1 : y - 1 + 1 = y := by omega
  rw [e1] at hst'
  have h3 : (daysBeforeYear (y + 1) + 1) - (daysBeforeYear y + 1) = 365 ∨
      (daysBeforeYear (y + 1) + 1) - (daysBeforeYear y + 1) = 366 := by split at hst <;> omega
  have h4 : (daysBeforeYear y + 1) - (daysBeforeYear (y - 1) + 1) = 365 ∨
      (daysBeforeYear y + 1) - (daysBeforeYear (y - 1) + 1) = 366 := by split at hst' <;> omega
  have key := Lemmas.C18Iso.iso_arith o (daysBeforeYear (y - 1) + 1) (daysBeforeYear y + 1)
    (daysBeforeYear (y + 1) + 1) hb'.1 (by omega) h3 h4
  rw [key]
  -- the year of the Thursday, as the specification names it
  by_cases c1 : o + 4 - ((o - 1) % 7 + 1) < daysBeforeYear y + 1
  · simp only [if_pos c1]
  · simp only [if_neg c1]
    by_cases c2 : o + 4 - ((o - 1) % 7 + 1) ≥ daysBeforeYear (y + 1) + 1
    · simp only [if_pos c2]
    · simp only [if_neg c2]

theorem dtInt_serial (n : Int) (h : IsSerial n) : dtInt ⟨dayOf n, 0⟩ = n := by
  rw [dtInt_whole]; unfold dayOf; split <;> split <;> omega

/-- `isoweek_spec`: ISOWEEKNUM of every serial is the ISO 8601 week number of its date -/
theorem isoweeknum_spec (n : Int) (h : IsSerial n) :
    ISOWEEKNUM ⟨dayOf n, 0⟩ = .ok (Spec.C18.isoWeek (dateOf n)) := by
  unfold ISOWEEKNUM
  rw [dtInt_serial n h, number_to_datetime_whole n h]
  unfold Res.map
  simp only []
  rw [isoWeek_spec]
  rfl


/-! ### DATE -/

/-- days-from-civil is affine in the day of the month -/
theorem daysFromCivil_day (y m d : Int) : daysFromCivil ⟨y, m, d⟩ = daysFromCivil ⟨y, m, 1⟩ + (d - 1) := by
  unfold daysFromCivil; simp only []; omega

/-- the closed form of `DATE`: arguments truncated, year rule, month carry by floor division, day offset,
    then the two range checks of the code (`datetime` exists for years 1 … 9999 only) -/
theorem DATE_closed (year month day : Num) (hy0 : 0 ≤ pyInt year) (hy1 : pyInt year ≤ 9999) :
    DATE year month day =
      let y' := if pyInt year < 1900 then 1900 + pyInt year else pyInt year
      let ym := Spec.C18.monthShift y' 1 (pyInt month - 1)
      if ym.1 < 1 ∨ ym.1 > 9999 then .crash .valueError else
      let dd := ordinal ⟨ym.1, ym.2, 1⟩ + (pyInt day - 1) - 693596
      if dd < -693595 ∨ dd > 2958463 then .crash .overflow else
      if dd < 0 then .err .num else .ok ⟨dd, 0⟩ := by
  have hc := carryYM_eq 1900 1 ((if pyInt year < 1900 then 1900 + pyInt year else pyInt year) - 1900)
    (pyInt month - 1) (by omega) (by omega)
  have e : (1900 + ((if pyInt year < 1900 then 1900 + pyInt year else pyInt year) - 1900))
      = (if pyInt year < 1900 then 1900 + pyInt year else pyInt year) := by omega
  rw [e] at hc
  have hy : ¬ ¬ (0 ≤ pyInt year ∧ pyInt year ≤ 9999) := by omega
  unfold DATE addRel
  simp only [if_neg hy, hc]
  have hm : 1 ≤ (Spec.C18.monthShift (if pyInt year < 1900 then 1900 + pyInt year else pyInt year) 1
      (pyInt month - 1)).2 ∧ (Spec.C18.monthShift (if pyInt year < 1900 then 1900 + pyInt year else pyInt year) 1
      (pyInt month - 1)).2 ≤ 12 := by
    unfold Spec.C18.monthShift; simp only []; omega
  generalize Spec.C18.monthShift (if pyInt year < 1900 then 1900 + pyInt year else pyInt year) 1
    (pyInt month - 1) = ym at hm ⊢
  by_cases hr : ym.1 < 1 ∨ ym.1 > 9999
  · simp only [if_pos hr]
  · simp only [if_neg hr]
    have hd : min (daysInMonth ym.1 ym.2) (Option.getD none 1) = 1 := by
      have := dim_pos ym.1 ym.2
      rw [dim_eq] at this
      simp only [Option.getD]; omega
    have e2 : daysFromCivil ⟨ym.1, ym.2, 1⟩ - epochCivil + (pyInt day - 1)
        = ordinal ⟨ym.1, ym.2, 1⟩ + (pyInt day - 1) - 693596 := by
      rw [ordinal_eq _ _ _ hm.1 hm.2]; unfold epochCivil; omega
    rw [hd, e2]
    generalize ordinal ⟨ym.1, ym.2, 1⟩ + (pyInt day - 1) - 693596 = dd
    unfold mkDT
    rw [minDay_eq, maxDay_eq]
    by_cases hov : dd < -693595 ∨ dd > 2958463
    · simp only [if_pos hov]
    · simp only [if_neg hov]

theorem DATE_eq (y m d : Int) (hy0 : 0 ≤ y) (hy1 : y ≤ 9999) :
    DATE (.int y) (.int m) (.int d) =
      let y' := if y < 1900 then 1900 + y else y
      let ym := Spec.C18.monthShift y' 1 (m - 1)
      if ym.1 < 1 ∨ ym.1 > 9999 then .crash .valueError else
      let day := ordinal ⟨ym.1, ym.2, 1⟩ + (d - 1) - 693596
      if day < -693595 ∨ day > 2958463 then .crash .overflow else
      if day < 0 then .err .num else .ok ⟨day, 0⟩ :=
  DATE_closed (.int y) (.int m) (.int d) hy0 hy1

/-- observable serial of a function result -/
def serialRes (r : Res DT) : Res Rat := r.map datetimeToNumber

/-- `date_carry`: for all whole arguments DATE agrees with the reference — months and days outside
    their ranges carry into the next units, years 0 … 1899 count from 1900, and results before
    1900-01-01 or years outside 0 … 9999 are #NUM! — as long as the carried date exists as a `datetime`
    (years 1 … 9999; beyond, the code raises, see `date_carry_overflow`) -/
theorem date_carry (y m d : Int)
    (hrange : 0 ≤ y ∧ y ≤ 9999 →
      let y' := if y < 1900 then 1900 + y else y
      let ym := Spec.C18.monthShift y' 1 (m - 1)
      1 ≤ ym.1 ∧ ym.1 ≤ 9999 ∧ 1 ≤ ordinal ⟨ym.1, ym.2, 1⟩ + (d - 1) ∧
        ordinal ⟨ym.1, ym.2, 1⟩ + (d - 1) ≤ 3652059) :
    serialRes (DATE (.int y) (.int m) (.int d)) =
      match Spec.C18.date y m d with
      | some s => .ok (s : Rat)
      | none => .err .num := by
  by_cases hy : 0 ≤ y ∧ y ≤ 9999
  · have hr := hrange hy
    rw [DATE_eq y m d hy.1 hy.2]
    unfold Spec.C18.date
    have e : (if y < 1900 then y + 1900 else y) = (if y < 1900 then 1900 + y else y) := by split <;> omega
    simp only [e] at hr ⊢
    generalize Spec.C18.monthShift (if y < 1900 then 1900 + y else y) 1 (m - 1) = ym at hr ⊢
    generalize ordinal ⟨ym.1, ym.2, 1⟩ + (d - 1) = o at hr ⊢
    have h1 : ¬ (ym.1 < 1 ∨ ym.1 > 9999) := by omega
    have h2 : ¬ (o - 693596 < -693595 ∨ o - 693596 > 2958463) := by omega
    have h3 : ¬ (y < 0 ∨ y > 9999) := by omega
    simp only [if_neg h1, if_neg h2, if_neg h3]
    unfold serialOfOrdinal
    simp only []
    by_cases hneg : o - 693596 < 0
    · have h4 : (if o - 693595 ≥ 60 then o - 693595 + 1 else o - 693595) < 1 := by split <;> omega
      simp only [if_pos hneg, if_pos h4]; rfl
    · have h4 : ¬ (if o - 693595 ≥ 60 then o - 693595 + 1 else o - 693595) < 1 := by split <;> omega
      simp only [if_neg hneg, if_neg h4]
      unfold serialRes Res.map
      simp only []
      rw [datetimeToNumber_whole]
      congr 2
      split <;> split <;> omega
  · have h3 : y < 0 ∨ y > 9999 := by omega
    have h3' : ¬ (0 ≤ pyInt (.int y) ∧ pyInt (.int y) ≤ 9999) := by unfold pyInt; omega
    unfold DATE Spec.C18.date
    simp only [if_pos h3, if_pos h3']
    rfl

/-- outside `datetime`'s years the code raises instead of returning #NUM! (not covered by the statement) -/
example : DATE (.int 9999) (.int 12) (.int 32) = .crash .overflow := by decide
example : DATE (.int 9999) (.int 13) (.int 1) = .crash .valueError := by decide

/-- non-vacuity of `date_carry`: far out-of-range months and days satisfy its hypothesis -/
example : (let ym := Spec.C18.monthShift 2009 1 (-400 - 1)
    1 ≤ ym.1 ∧ ym.1 ≤ 9999 ∧ 1 ≤ ordinal ⟨ym.1, ym.2, 1⟩ + (100000 - 1) ∧
      ordinal ⟨ym.1, ym.2, 1⟩ + (100000 - 1) ≤ 3652059) := by decide
example : Spec.C18.date 2009 14 1 = some 40210 ∧ Spec.C18.date 2009 1 400 = some 40213
    ∧ Spec.C18.date 2009 (-1) 1 = some 39753 ∧ Spec.C18.date 1900 1 0 = none := by decide

/-- `date_inverse`: DATE(YEAR(n), MONTH(n), DAY(n)) = n for every serial -/
theorem date_inverse (n : Int) (h : IsSerial n) :
    DATE (.int (dateOf n).y) (.int (dateOf n).m) (.int (dateOf n).d) = .ok ⟨dayOf n, 0⟩ := by
  have hs := serial_date_spec n h
  have hyr := year_range n h
  obtain ⟨⟨hm1, hm12, hd1, hdm⟩, hser⟩ := hs
  rw [DATE_eq _ _ _ (by omega) (by omega)]
  have ey : (if (dateOf n).y < 1900 then 1900 + (dateOf n).y else (dateOf n).y) = (dateOf n).y := by
    rw [if_neg (by omega)]
  have hshift : Spec.C18.monthShift (dateOf n).y 1 ((dateOf n).m - 1) = ((dateOf n).y, (dateOf n).m) := by
    unfold Spec.C18.monthShift; apply Prod.ext <;> simp only [] <;> omega
  have ho : ordinal ⟨(dateOf n).y, (dateOf n).m, 1⟩ + ((dateOf n).d - 1) = ordinal (dateOf n) := by
    rw [ordinal_def]; show _ = ordinal ⟨(dateOf n).y, (dateOf n).m, (dateOf n).d⟩; rw [ordinal_def]; omega
  unfold serialOf serialOfOrdinal at hser
  simp only [] at hser
  have hday : ordinal (dateOf n) - 693596 = dayOf n := by
    unfold dayOf; split at hser <;> split <;> omega
  simp only [ey, hshift, ho, hday]
  have h1 : ¬ ((dateOf n).y < 1 ∨ (dateOf n).y > 9999) := by omega
  have h2 : ¬ (dayOf n < -693595 ∨ dayOf n > 2958463) := by unfold dayOf; split <;> omega
  have h3 : ¬ dayOf n < 0 := by unfold dayOf; split <;> omega
  simp only [if_neg h1, if_neg h2, if_neg h3]

theorem date_inverse_serial (n : Int) (h : IsSerial n) :
    serialRes (DATE (.int (dateOf n).y) (.int (dateOf n).m) (.int (dateOf n).d)) = .ok (n : Rat) := by
  rw [date_inverse n h, ← serial_roundtrip n h, number_to_datetime_whole n h]; rfl

end XlVerif.Props.C18
