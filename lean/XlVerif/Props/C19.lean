/-
  C19 — base-conversion functions are exact two's-complement conversions.

  The theorems are about `Model.C19` (the mirror of engineering.py, reading its tables from
  `Gen.C19Eng`) and hold for *every* call: every function name, every number argument, every places
  argument.  `impl_meets_spec` is the refinement theorem (the model returns what the reference
  semantics `Spec.C19.want` demands wherever the statement speaks); the named clauses of the
  statement follow from it.  The correspondence check ties `Model.C19` to the running code.
-/
import XlVerif.Lemmas.C19
import XlVerif.Lemmas.C19Window
import XlVerif.Gen.Registry
namespace XlVerif.Props.C19
open XlVerif XlVerif.Model.C19 XlVerif.Spec.C19 XlVerif.Lemmas.C19 XlVerif.Gen.C19Eng

/-! ### correspondence of names between the generated tables and the reference semantics -/

def eb : Radix → EBase
  | .bin => .bin | .oct => .oct | .hex => .hex

def ebs : Side → EBase
  | .dec => .dec | .rad r => eb r

/-- bits of ten digits -/
def bits : Radix → Nat
  | .bin => 10 | .oct => 30 | .hex => 40

theorem two_pow_bits (r : Radix) : 2 ^ bits r = modulus r := by cases r <;> decide
theorem two_pow_bits_pred (r : Radix) : 2 ^ (bits r - 1) = half r := by cases r <;> decide
theorem bits_pos (r : Radix) : bits r - 1 + 1 = bits r := by cases r <;> decide
theorem half_add_half (r : Radix) : half r + half r = modulus r := by cases r <;> decide
theorem base_range (r : Radix) : 2 ≤ r.b ∧ r.b ≤ 16 := by cases r <;> decide
theorem base_pow_nine_le_half (r : Radix) : r.b ^ 9 ≤ half r := by cases r <;> decide

/-! ### table obligations on the generated tables (re-checked against what the code says now) -/

/-- PERMITTED_DIGITS holds exactly the digits of each base (hexadecimal letters in both cases). -/
theorem table_permitted (r : Radix) : lookup (eb r) permittedDigits = some (validDigits r) := by
  cases r <;> decide

/-- BASE_NUMBERS: 2, 8, 16. -/
theorem table_base (r : Radix) : lookup (eb r) baseNumbers = some r.b := by
  cases r <;> decide

/-- wrap width (a negative number is written as value + 2^w): ten digits of base b are 10·log₂ b bits. -/
theorem table_width (r : Radix) : lookup (eb r) bitWidths = some (bits r : Int) := by
  cases r <;> decide

/-- sign width (bit w−1 of a digit string is the sign): the same 10·log₂ b. -/
theorem table_sign_width (r : Radix) : lookup (eb r) signWidths = some (bits r : Int) := by
  cases r <;> decide

/-- at most ten digits are read, in every base. -/
theorem table_max_digits (r : Radix) : lookup (eb r) maxDigits = some 10 := by
  cases r <;> decide

/-- `places` is accepted from 1 to 10. -/
theorem table_places : placesMin = 1 ∧ placesMax = 10 := by decide

/-- digits are written in upper case; a negative result keeps its digits whatever `places` says;
    digit validation is per character. -/
theorem table_flags : upperCase = true ∧ negativeKeepsDigits = true ∧ digitsPerCharacter = true := by
  decide

/-- width of a side for the bounds: `none` = decimal, unbounded -/
def widthOf : EBase → Option Nat
  | .bin => some 10 | .oct => some 30 | .hex => some 40 | .dec => none

/-- the integers a conversion accepts are −2^(w−1) … 2^(w−1)−1 for the narrower of its two sides. -/
theorem table_bounds_shape :
    ∀ row ∈ bounds, ∃ w, (match widthOf row.1, widthOf row.2.1 with
        | some a, some b => some (min a b) | some a, none => some a | none, some b => some b
        | none, none => none) = some w ∧ row.2.2.1 = -(2 ^ (w - 1)) ∧ row.2.2.2 = 2 ^ (w - 1) - 1 := by
  decide

/-- the bound the reference semantics needs between two sides -/
def boundOf : Side → Side → Nat
  | .dec, .rad r => half r
  | .rad r, .dec => half r
  | .rad r, .rad r' => min (half r) (half r')
  | .dec, .dec => 0

theorem table_bounds (o d : Side) (h : o ≠ d) :
    lookupBound (ebs o) (ebs d) = some (-(boundOf o d : Int), (boundOf o d : Int) - 1) := by
  cases o with
  | dec => cases d with
    | dec => exact absurd rfl h
    | rad r => cases r <;> decide
  | rad r => cases d with
    | dec => cases r <;> decide
    | rad r' => cases r <;> cases r' <;> first | exact absurd rfl h | decide

/-- every one of the twelve functions hands the right (origin, destination) pair to
    `convert_bases`, and passes `places` exactly when the destination is not decimal. -/
theorem table_wrappers :
    ∀ f ∈ functions, lookup f.1 wrappers = some (ebs f.2.1, ebs f.2.2, decide (f.2.2 ≠ .dec)) := by
  decide

/-- the twelve functions are registered by `import xlcalculator` (defect D49), in module
    `engineering`, behind `validate_args`, with parameters `number[, places = UNUSED]` annotated
    `XlAnything`, returning `XlText` (`XlNumber` for `…2DEC`). -/
def registered (name : List Char) (takesPlaces : Bool) : Bool :=
  Gen.registry.any fun f =>
    f.name == name && f.module == ['e', 'n', 'g', 'i', 'n', 'e', 'e', 'r', 'i', 'n', 'g'] && f.validated
    && (f.params.map fun p => (p.name, p.hasDefault)) ==
        (if takesPlaces then [(['n', 'u', 'm', 'b', 'e', 'r'], false), (['p', 'l', 'a', 'c', 'e', 's'], true)]
         else [(['n', 'u', 'm', 'b', 'e', 'r'], false)])
    && (f.params.all fun p => !p.variadic && (match p.annot with | .xlAnything => true | _ => false))
    && (match f.ret with | .xlText => takesPlaces | .xlNumber => !takesPlaces | _ => false)

theorem registry_has_twelve :
    functions.all (fun f => registered f.1 (decide (f.2.2 ≠ .dec))) = true := by
  decide

/-! ### per-character obligations -/

theorem valid_char (r : Radix) :
    ∀ c ∈ validDigits r, charDigit c = some (digitValue c) ∧ digitValue c < r.b := by
  cases r <;> decide

theorem valid_not_sign (r : Radix) : ∀ c ∈ validDigits r, c ≠ '+' ∧ c ≠ '-' := by
  cases r <;> decide

theorem digitCh_valid (r : Radix) : ∀ d, d < r.b → digitCh d ∈ validDigits r := by
  cases r <;> decide

/-! ### reading a digit string -/

theorem shl1_bits_pred (r : Radix) : shl1 ((bits r : Int) - 1) = some (2 ^ (bits r - 1)) := by
  cases r <;> decide

theorem shl1_bits (r : Radix) : shl1 (bits r : Int) = some (modulus r) := by
  cases r <;> decide

theorem eb_ne_dec (r : Radix) : eb r ≠ .dec := by cases r <;> decide

/-- `handle_number`'s check of the text accepts exactly the strings the reference semantics can read. -/
theorem checkDigits_eq (r : Radix) (s : List Char) (hs : s ≠ []) :
    checkDigits s (eb r) = match decode r s with
      | some _ => .ok (.s s)
      | none => .err .num := by
  unfold checkDigits decode
  have hlen : s.length ≠ 0 := by
    intro h; exact hs (List.eq_nil_of_length_eq_zero h)
  simp only [table_max_digits]
  by_cases h10 : s.length > 10
  · simp [h10]
  · simp only [h10, if_false, table_permitted, hlen, false_or]
    by_cases hv : ∀ c ∈ s, c ∈ validDigits r
    · have : (s.all fun c => decide (c ∈ validDigits r)) = true := by
        simpa [List.all_eq_true] using hv
      rw [if_pos hv]; simp [this]
    · have : (s.all fun c => decide (c ∈ validDigits r)) = false := by
        cases hh : (s.all fun c => decide (c ∈ validDigits r)) with
        | false => rfl
        | true => exact absurd (by simpa [List.all_eq_true] using hh) hv
      rw [if_neg hv]; simp [this]

/-- **x2dec**: the mask arithmetic of `conversion` reads a valid digit string as the ten-digit
    two's-complement number it denotes — and that number lies in the window of its base. -/
theorem fromDigits_eq (r : Radix) (s : List Char) (n : Int) (h : decode r s = some n) :
    fromDigits s (eb r) = .ok n ∧ inWindow r n := by
  unfold decode at h
  by_cases hl : s.length = 0 ∨ s.length > 10
  · rw [if_pos hl] at h; cases h
  · by_cases hv : ∀ c ∈ s, c ∈ validDigits r
    · rw [if_neg hl, if_pos hv] at h
      have hb := base_range r
      have hne : s ≠ [] := by intro e; subst e; simp at hl
      have hfold := intBaseFold_eq r.b s (fun c hc => valid_char r c (hv c hc)) 0
      have hlt : positional r.b s < modulus r := by
        have h1 := positional_lt r.b (by omega) s (fun c hc => (valid_char r c (hv c hc)).2)
        have h2 : r.b ^ s.length ≤ r.b ^ 10 := Nat.pow_le_pow_right (by omega) (by omega)
        unfold modulus; omega
      have hpy : pyIntBase s r.b = some (positional r.b s) := by
        unfold pyIntBase
        have : ¬ (r.b < 2 ∨ r.b > 36 ∨ s.isEmpty = true) := by
          simp [hne]; omega
        rw [if_neg this, hfold]; simp
      have hm := mask_value (positional r.b s) (bits r - 1) (by rw [bits_pos, two_pow_bits]; exact hlt)
      rw [bits_pos, two_pow_bits, two_pow_bits_pred] at hm
      have hh := half_add_half r
      constructor
      · unfold fromDigits
        simp only [table_base, hpy, table_sign_width, shl1_bits_pred]
        rw [two_pow_bits_pred, hm]
        injection h with h
        rw [← h]
      · injection h with h
        unfold inWindow
        by_cases hge : positional r.b s ≥ half r
        · simp only [hge, if_true] at h; omega
        · simp only [hge, if_false] at h; omega
    · rw [if_neg hl, if_neg hv] at h; cases h

example : decode .hex ['F', 'f', 'F', 'F', 'F', 'F', 'F', 'E', '0', '0'] = some (-512) := by decide

/-! ### writing digits -/

theorem pyBaseRepr_eq (r : Radix) (v : Int) (hv : 0 ≤ v) :
    ∃ l, pyBaseRepr (eb r) v = .ok ('0' :: l :: Nat.toDigits r.b v.toNat) := by
  have : ¬ v < 0 := by omega
  cases r <;> simp [pyBaseRepr, eb, Radix.b, this]

theorem zfill_eq (s : List Char) (w : Nat) (hs : ∀ c ∈ s, c ≠ '+' ∧ c ≠ '-') :
    zfill s w = List.replicate (w - s.length) '0' ++ s := by
  unfold zfill
  by_cases h : s.length ≥ w
  · have : w - s.length = 0 := by omega
    simp [h, this]
  · rw [if_neg h]
    cases s with
    | nil => simp
    | cons c t =>
      have hc := hs c (by simp)
      simp [hc.1, hc.2]

theorem mem_refDigits (r : Radix) (n : Int) : ∀ c ∈ refDigits r n, c ∈ validDigits r := by
  intro c hc
  have hb := base_range r
  have hfix : ∀ v, c ∈ fixed r.b 10 v → c ∈ validDigits r := by
    intro v hv
    obtain ⟨d, hd, rfl⟩ := mem_fixed r.b (by omega) c 10 v hv
    exact digitCh_valid r d hd
  unfold refDigits at hc
  split at hc
  · exact hfix _ hc
  · rcases mem_stripZeros hc with h | h
    · subst h; exact digitCh_valid r 0 (by omega)
    · exact hfix _ h

theorem length_refDigits_le (r : Radix) (n : Int) : 1 ≤ (refDigits r n).length ∧ (refDigits r n).length ≤ 10 := by
  unfold refDigits
  split
  · simp [length_fixed]
  · have h := length_stripZeros_le (fixed r.b 10 n.toNat) (by simp [length_fixed])
    rw [length_fixed] at h
    exact ⟨length_stripZeros_pos _, h⟩

/-- **dec2x**: the tail of `conversion` writes, for every integer of the window of the destination
    and every (range-checked) places value, exactly the reference digits — upper case, ten digits
    for a negative number, left-padded with zeros to `places` otherwise, #NUM! when they do not fit. -/
theorem renderDigits_eq (r : Radix) (n : Int) (hw : inWindow r n) (p : Option Nat) :
    renderDigits n (eb r) (p.map Int.ofNat) = match encode r n p with
      | some t => .ok t
      | none => .err .num := by
  have hb := base_range r
  have hh := half_add_half r
  have h9 := base_pow_nine_le_half r
  have hmod : modulus r = r.b ^ 10 := rfl
  unfold inWindow at hw
  unfold renderDigits encode
  simp only [table_flags.1, if_true]
  by_cases hneg : n < 0
  · -- negative: wrap by 2^w, ten digits, places ignored
    have hv0 : 0 ≤ n + (modulus r : Int) := by omega
    obtain ⟨l, hl⟩ := pyBaseRepr_eq r (n + modulus r) hv0
    simp only [hneg, decide_true, if_true, table_width, shl1_bits, Res.bind, hl, List.drop]
    have hv1 : 1 ≤ (n + (modulus r : Int)).toNat := by omega
    have hvlt : (n + (modulus r : Int)).toNat < r.b ^ 10 := by rw [← hmod]; omega
    have hD := toDigits_eq_D_fixed upperChar r.b hb.1 hb.2
      (fun d hd => upper_digitChar d (by omega)) 10 _ hv1 hvlt
    have hlen : (Nat.toDigits r.b (n + (modulus r : Int)).toNat).length = 10 := by
      have h1 := (Nat.length_toDigits_le_iff (b := r.b) (n := (n + (modulus r : Int)).toNat)
        (k := 10) (by omega) (by omega)).2 hvlt
      have h2 : ¬ (Nat.toDigits r.b (n + (modulus r : Int)).toNat).length ≤ 9 := by
        intro h
        have := (Nat.length_toDigits_le_iff (b := r.b) (n := (n + (modulus r : Int)).toNat)
          (k := 9) (by omega) (by omega)).1 h
        omega
      omega
    have hfix : (Nat.toDigits r.b (n + (modulus r : Int)).toNat).map upperChar
        = fixed r.b 10 (n + (modulus r : Int)).toNat := by
      rw [hD]
      apply D_eq_self_of_length
      rw [← hD, List.length_map, hlen, length_fixed]
    rw [hfix]
    have hrepr : refDigits r n = fixed r.b 10 (n + (modulus r : Int)).toNat := by
      unfold refDigits; rw [if_pos hneg]
    rw [hrepr]
    cases p with
    | none => simp [padZeroes]
    | some k =>
      simp only [padZeroes, table_flags.2.1, Bool.and_true, Option.map, if_true, Int.lt_irrefl, if_false]
      simp [zfill, length_fixed]
  · -- non-negative: the digits without leading zeros, padded to places
    have hn0 : 0 ≤ n := by omega
    obtain ⟨l, hl⟩ := pyBaseRepr_eq r n hn0
    simp only [hneg, decide_false, if_false, Res.bind, hl, List.drop, Bool.false_eq_true]
    have hvlt : n.toNat < r.b ^ 10 := by rw [← hmod]; omega
    have hfix := toDigits_eq_stripZeros upperChar r.b hb.1 hb.2
      (fun d hd => upper_digitChar d (by omega)) 10 n.toNat hvlt
    rw [hfix]
    have hrepr : refDigits r n = stripZeros (fixed r.b 10 n.toNat) := by
      unfold refDigits; rw [if_neg hneg]
    rw [← hrepr]
    cases p with
    | none => simp [padZeroes]
    | some k =>
      have hz := zfill_eq (refDigits r n) k (fun c hc => valid_not_sign r c (mem_refDigits r n c hc))
      simp only [padZeroes, Bool.false_and, Option.map, Bool.false_eq_true, if_false]
      by_cases hk : (refDigits r n).length > k
      · have : (Int.ofNat k) < ((refDigits r n).length : Int) := by
          simp only [Int.ofNat_eq_natCast]; omega
        simp [hk]
      · have : ¬ (Int.ofNat k) < ((refDigits r n).length : Int) := by
          simp only [Int.ofNat_eq_natCast]; omega
        simp only [this, if_false, hk]
        rw [show (Int.ofNat k).toNat = k from rfl, hz]

example : encode .oct (-1) (some 3) = some ['7', '7', '7', '7', '7', '7', '7', '7', '7', '7'] := by decide
example : encode .hex 255 (some 4) = some ['0', '0', 'F', 'F'] := by decide
example : encode .bin 5 (some 2) = none := by decide

/-! ### the arguments -/

theorem truncRat_of_den_one (q : Rat) (h : q.den = 1) : truncRat q = q.num := by
  unfold truncRat
  split
  · rw [Rat.floor_def]; simp [h]
  · rw [Rat.floor_def]; simp [h]

theorem toInt_num (x : Num) (z : Int) (h : asInteger x = some z) : toInt (.num x) = .ok z := by
  cases x with
  | int y => simp [asInteger] at h; subst h; rfl
  | flt q =>
    simp only [asInteger] at h
    by_cases hd : q.den = 1
    · rw [if_pos hd] at h; injection h with h; subst h
      simp [toInt, truncRat_of_den_one q hd]
    · rw [if_neg hd] at h; cases h

/-- `handle_places` on a places value the statement speaks about (a function that takes `places`). -/
theorem places_ok (pl : Option S) (p : Option Nat) (h : classPlaces true pl = .ok p) :
    handlePlaces pl = .ok (p.map Int.ofNat) := by
  cases pl with
  | none => simp [classPlaces] at h; subst h; rfl
  | some v =>
    cases v with
    | num x =>
      simp only [classPlaces] at h
      cases hx : asInteger x with
      | none => simp [hx] at h
      | some z =>
        simp only [hx] at h
        by_cases hz : 1 ≤ z ∧ z ≤ 10
        · simp [hz] at h
          subst h
          simp only [handlePlaces, table_places.1, table_places.2, toInt_num x z hx, Res.bind, hz, and_self, if_true, Option.map]
          congr 2
          exact (Int.toNat_of_nonneg (by omega)).symm
        · simp [hz] at h
    | bool b => simp [classPlaces] at h
    | text t => simp [classPlaces] at h
    | blank => simp [classPlaces] at h
    | date q => simp [classPlaces] at h
    | err c => simp [classPlaces] at h

theorem places_err (pl : Option S) (c : Code) (h : classPlaces true pl = .err c) :
    handlePlaces pl = .err c := by
  cases pl with
  | none => simp [classPlaces] at h
  | some v =>
    cases v with
    | num x =>
      simp only [classPlaces] at h
      cases hx : asInteger x with
      | none => simp [hx] at h
      | some z =>
        simp only [hx] at h
        by_cases hz : 1 ≤ z ∧ z ≤ 10
        · simp [hz] at h
        · simp [hz] at h
          subst h
          simp only [handlePlaces, table_places.1, table_places.2, toInt_num x z hx, Res.bind, hz, if_false]
    | bool b => simp [classPlaces] at h; subst h; rfl
    | text t => simp [classPlaces] at h
    | blank => simp [classPlaces] at h
    | date q => simp [classPlaces] at h
    | err c => simp [classPlaces] at h

/-- a places value in 1…10 when the classification accepts it -/
theorem places_range (pl : Option S) (k : Nat) (h : classPlaces true pl = .ok (some k)) :
    1 ≤ k ∧ k ≤ 10 := by
  cases pl with
  | none => simp [classPlaces] at h
  | some v =>
    cases v with
    | num x =>
      simp only [classPlaces] at h
      cases hx : asInteger x with
      | none => simp [hx] at h
      | some z =>
        simp only [hx] at h
        by_cases hz : 1 ≤ z ∧ z ≤ 10
        · simp [hz] at h; omega
        · simp [hz] at h
    | bool b => simp [classPlaces] at h
    | text t => simp [classPlaces] at h
    | blank => simp [classPlaces] at h
    | date q => simp [classPlaces] at h
    | err c => simp [classPlaces] at h

/-- a function without `places` (…2DEC): the statement speaks only about calls that omit it -/
theorem classPlaces_false (pl : Option S) :
    (pl = none ∧ classPlaces false pl = .ok none) ∨ classPlaces false pl = .silent := by
  cases pl with
  | none => left; exact ⟨rfl, rfl⟩
  | some v => right; simp [classPlaces]

/-! ### the number argument -/

theorem str_path_ok (r : Radix) (s : List Char) (hs : s ≠ []) (n : Int) (h : decode r s = some n) :
    checkDigits s (eb r) = .ok (.s s) ∧ valueOfArg (.s s) (eb r) = .ok n ∧ inWindow r n := by
  have h1 := checkDigits_eq r s hs
  rw [h] at h1
  have h2 := fromDigits_eq r s n h
  refine ⟨h1, ?_, h2.2⟩
  unfold valueOfArg
  rw [if_neg (eb_ne_dec r)]
  exact h2.1

theorem str_path_bad (r : Radix) (s : List Char) (hs : s ≠ []) (h : decode r s = none) :
    checkDigits s (eb r) = .err .num := by
  have h1 := checkDigits_eq r s hs
  rw [h] at h1
  exact h1

theorem minus_not_valid (r : Radix) : '-' ∉ validDigits r := by cases r <;> decide

/-- a negative number is not a digit string: the sign is not a digit -/
theorem negative_path (r : Radix) (z : Int) (hz : z < 0) :
    checkDigits (intRepr z) (eb r) = .err .num := by
  unfold checkDigits intRepr
  rw [if_pos hz]
  simp only [table_max_digits]
  split
  · rfl
  · simp [table_permitted, minus_not_valid r]

/-- a number of more than ten decimal digits is not a digit string -/
theorem long_path (r : Radix) (z : Int) (_h0 : 0 ≤ z) (hz : z ≥ 10 ^ 10) :
    checkDigits (intRepr z) (eb r) = .err .num := by
  have e : intRepr z = Nat.toDigits 10 z.toNat := by
    unfold intRepr; rw [if_neg (show ¬ z < 0 by omega)]
  have : ¬ (Nat.toDigits 10 z.toNat).length ≤ 10 := by
    intro h
    have := (Nat.length_toDigits_le_iff (b := 10) (n := z.toNat) (k := 10) (by omega) (by omega)).1 h
    omega
  unfold checkDigits
  simp only [table_max_digits]
  rw [e, if_pos (show (Nat.toDigits 10 z.toNat).length > 10 by omega)]

/-- a non-negative number below 10¹⁰ is read by its decimal digits -/
theorem intRepr_eq (z : Int) (h0 : 0 ≤ z) (hz : ¬ z ≥ 10 ^ 10) :
    intRepr z = stripZeros (fixed 10 10 z.toNat) := by
  unfold intRepr
  rw [if_neg (show ¬ z < 0 by omega)]
  have := toDigits_eq_stripZeros id 10 (by omega) (by omega)
    (fun d hd => dec_digitChar d hd) 10 z.toNat (by omega)
  simpa using this

theorem handleNumber_rad_int (r : Radix) (x : Num) (z : Int) (hx : asInteger x = some z) :
    handleNumber (.num x) (eb r) = checkDigits (intRepr z) (eb r) := by
  have hne := eb_ne_dec r
  cases x with
  | int y =>
    simp [asInteger] at hx; subst hx
    simp [handleNumber, hne, asStr, Res.bind]
  | flt q =>
    simp only [asInteger] at hx
    by_cases hd : q.den = 1
    · rw [if_pos hd] at hx; injection hx with hx; subst hx
      have : q.isInt = true := by simp [Rat.isInt, hd]
      simp [handleNumber, hne, asStr, Res.bind, this, truncRat_of_den_one q hd]
    · rw [if_neg hd] at hx; cases hx

theorem handleNumber_rad_frac (r : Radix) (x : Num) (hx : asInteger x = none) :
    handleNumber (.num x) (eb r) = .err .num := by
  have hne := eb_ne_dec r
  cases x with
  | int y => simp [asInteger] at hx
  | flt q =>
    simp only [asInteger] at hx
    by_cases hd : q.den = 1
    · rw [if_pos hd] at hx; cases hx
    · have : q.isInt = false := by simp [Rat.isInt, hd]
      simp [handleNumber, hne, asStr, Res.bind, this]

/-- `handle_number` reports exactly the error the statement demands of the number argument. -/
theorem number_err (o : Side) (number : S) (c : Code) (h : classNumber o number = .err c) :
    handleNumber number (ebs o) = .err c := by
  cases number with
  | bool b => simp [classNumber] at h; subst h; rfl
  | num x =>
    cases o with
    | dec =>
      simp only [classNumber] at h
      cases hx : asInteger x <;> simp [hx] at h
    | rad r =>
      simp only [classNumber] at h
      cases hx : asInteger x with
      | none => simp [hx] at h; subst h; exact handleNumber_rad_frac r x hx
      | some z =>
        simp only [hx] at h
        show handleNumber (.num x) (eb r) = _
        rw [handleNumber_rad_int r x z hx]
        by_cases hz : z < 0
        · simp [hz] at h; subst h; exact negative_path r z hz
        · by_cases hz2 : (10000000000 : Int) ≤ z
          · simp [hz, hz2] at h; subst h; exact long_path r z (by omega) (by omega)
          · simp only [hz, hz2, if_false, Int.reducePow] at h
            rw [intRepr_eq z (by omega) (by omega)]
            cases hd : decode r (stripZeros (fixed 10 10 z.toNat)) with
            | some v => simp [hd] at h
            | none =>
              simp [hd] at h; subst h
              exact str_path_bad r _ (stripZeros_ne_nil _) hd
  | text s =>
    cases o with
    | dec => simp [classNumber] at h
    | rad r =>
      simp only [classNumber] at h
      by_cases he : s.isEmpty
      · simp [he] at h
      · simp only [he] at h
        have hne : s ≠ [] := by intro e; subst e; simp at he
        cases hd : decode r s with
        | some v => simp [hd] at h
        | none =>
          simp [hd] at h; subst h
          have := str_path_bad r s hne hd
          simp [handleNumber, ebs, eb_ne_dec r, asStr, Res.bind, he, this]
  | blank => simp [classNumber] at h
  | date q => simp [classNumber] at h
  | err c => simp [classNumber] at h

/-- `handle_number` and the head of `conversion` find exactly the integer the number argument
    denotes; read from a digit string it lies in the window of the origin. -/
theorem number_ok (o : Side) (number : S) (n : Int) (h : classNumber o number = .ok n) :
    ∃ na, handleNumber number (ebs o) = .ok na ∧ valueOfArg na (ebs o) = .ok n ∧
      (∀ r, o = .rad r → inWindow r n) := by
  cases number with
  | bool b => simp [classNumber] at h
  | num x =>
    cases o with
    | dec =>
      simp only [classNumber] at h
      cases hx : asInteger x with
      | none => simp [hx] at h
      | some z =>
        simp [hx] at h; subst h
        refine ⟨.i z, ?_, rfl, fun r hr => by cases hr⟩
        cases x with
        | int y => simp [asInteger] at hx; subst hx; rfl
        | flt q =>
          have := toInt_num (.flt q) z hx
          simp [handleNumber, ebs, this, Res.map, Res.bind]
    | rad r =>
      simp only [classNumber] at h
      cases hx : asInteger x with
      | none => simp [hx] at h
      | some z =>
        simp only [hx] at h
        by_cases hz : z < 0
        · simp [hz] at h
        · by_cases hz2 : (10000000000 : Int) ≤ z
          · simp [hz, hz2] at h
          · simp only [hz, hz2, if_false, Int.reducePow] at h
            cases hd : decode r (stripZeros (fixed 10 10 z.toNat)) with
            | none => simp [hd] at h
            | some v =>
              simp [hd] at h; subst h
              have hp := str_path_ok r _ (stripZeros_ne_nil _) v hd
              refine ⟨.s (stripZeros (fixed 10 10 z.toNat)), ?_, hp.2.1, fun r' hr => ?_⟩
              · show handleNumber (.num x) (eb r) = _
                rw [handleNumber_rad_int r x z hx, intRepr_eq z (by omega) (by omega)]
                exact hp.1
              · injection hr with hr; subst hr; exact hp.2.2
  | text s =>
    cases o with
    | dec => simp [classNumber] at h
    | rad r =>
      simp only [classNumber] at h
      by_cases he : s.isEmpty
      · simp [he] at h
      · simp only [he] at h
        have hne : s ≠ [] := by intro e; subst e; simp at he
        cases hd : decode r s with
        | none => simp [hd] at h
        | some v =>
          simp [hd] at h; subst h
          have hp := str_path_ok r s hne v hd
          refine ⟨.s s, ?_, hp.2.1, fun r' hr => ?_⟩
          · simp [handleNumber, ebs, eb_ne_dec r, asStr, Res.bind, he, hp.1]
          · injection hr with hr; subst hr; exact hp.2.2
  | blank => simp [classNumber] at h
  | date q => simp [classNumber] at h
  | err c => simp [classNumber] at h

/-! ### the bounds check and the whole conversion -/

/-- in the window of a side (a decimal number is not bounded by its own side) -/
def inSide : Side → Int → Prop
  | .dec, _ => True
  | .rad r, n => inWindow r n

theorem half_bin : half .bin = 512 := by decide
theorem half_oct : half .oct = 536870912 := by decide
theorem half_hex : half .hex = 549755813888 := by decide

/-- BOUNDS[{origin, destination}] tests exactly the window of the destination (the origin's own
    window holds already). -/
theorem bound_iff (o d : Side) (hod : o ≠ d) (n : Int) (ho : inSide o n) :
    (-(boundOf o d : Int) ≤ n ∧ n ≤ (boundOf o d : Int) - 1) ↔ inSide d n := by
  cases o with
  | dec => cases d with
    | dec => exact absurd rfl hod
    | rad r => simp only [boundOf, inSide, inWindow]; omega
  | rad r => cases d with
    | dec =>
      simp only [boundOf, inSide, inWindow] at ho ⊢
      constructor
      · intro _; trivial
      · intro _; omega
    | rad r' =>
      simp only [boundOf, inSide, inWindow] at ho ⊢
      cases r <;> cases r' <;> simp only [half_bin, half_oct, half_hex] at ho ⊢ <;> omega

theorem functions_distinct : ∀ f ∈ functions, f.2.1 ≠ f.2.2 := by decide

theorem conversion_eq (o d : Side) (hod : o ≠ d) (na : NumArg) (n : Int)
    (hv : valueOfArg na (ebs o) = .ok n) (hw : inSide o n) (p : Option Nat) :
    conversion na (ebs o) (ebs d) (p.map Int.ofNat) =
      match d with
      | .dec => .ok (.num (.int n))
      | .rad r => if ¬ inWindow r n then .err .num else
          match encode r n p with
          | some t => .ok (.text t)
          | none => .err .num := by
  have hb := bound_iff o d hod n hw
  unfold conversion
  rw [hv]
  simp only [Res.bind, table_bounds o d hod]
  cases d with
  | dec =>
    have : -(boundOf o .dec : Int) ≤ n ∧ n ≤ (boundOf o .dec : Int) - 1 := hb.2 trivial
    simp [this, ebs]
  | rad r =>
    simp only [inSide] at hb
    by_cases hin : inWindow r n
    · have := hb.2 hin
      simp only [this, not_true, if_false, ebs, eb_ne_dec r, hin, and_self]
      rw [renderDigits_eq r n hin p]
      cases encode r n p <;> rfl
    · have : ¬ (-(boundOf o (.rad r) : Int) ≤ n ∧ n ≤ (boundOf o (.rad r) : Int) - 1) :=
        fun h => hin (hb.1 h)
      simp [this, hin]

/-! ### the refinement theorem -/

theorem places_err_code (pl : Option S) (c : Code) (h : classPlaces true pl = .err c) :
    c = .num ∨ c = .value := by
  cases pl with
  | none => simp [classPlaces] at h
  | some v =>
    cases v with
    | num x =>
      simp only [classPlaces] at h
      cases hx : asInteger x with
      | none => simp [hx] at h
      | some z =>
        simp only [hx] at h
        by_cases hz : 1 ≤ z ∧ z ≤ 10
        · simp [hz] at h
        · simp [hz] at h; exact Or.inl h.symm
    | bool b => simp [classPlaces] at h; exact Or.inr h.symm
    | text t => simp [classPlaces] at h
    | blank => simp [classPlaces] at h
    | date q => simp [classPlaces] at h
    | err c => simp [classPlaces] at h

theorem wantSides_silent_places (o d : Side) (number : S) (places : Option S)
    (h : classPlaces (decide (d ≠ .dec)) places = .silent) :
    wantSides o d number places = .silent := by
  unfold wantSides
  simp only [h]
  cases classNumber o number <;> rfl

theorem wantSides_silent_number (o d : Side) (number : S) (places : Option S)
    (h : classNumber o number = .silent) : wantSides o d number places = .silent := by
  unfold wantSides
  simp only [h]

/-- `convert_bases` returns what the statement demands, for every number and places argument. -/
theorem convert_meets (o d : Side) (hod : o ≠ d) (number : S) (places : Option S) :
    Meets (wantSides o d number places)
      (convertBases number (ebs o) (ebs d) (if decide (d ≠ .dec) then some places else none)) := by
  cases d with
  | dec =>
    rcases classPlaces_false places with ⟨hp, hc⟩ | hc
    · subst hp
      unfold wantSides convertBases
      simp only [ne_eq, not_true, decide_false, hc, Res.bind, Bool.false_eq_true, if_false]
      cases hn : classNumber o number with
      | silent => trivial
      | err c => simp only [Meets]; rw [number_err o number c hn]
      | ok n =>
        obtain ⟨na, h1, h2, h3⟩ := number_ok o number n hn
        have hw : inSide o n := by
          cases o with
          | dec => trivial
          | rad r => exact h3 r rfl
        have := conversion_eq o .dec hod na n h2 hw none
        simp only [Meets, h1]
        exact this
    · rw [wantSides_silent_places o .dec number places (by simpa using hc)]; trivial
  | rad r =>
    have hd : decide (Side.rad r ≠ .dec) = true := by simp
    unfold wantSides convertBases
    simp only [hd, if_true]
    cases hn : classNumber o number with
    | silent => trivial
    | err c =>
      cases hp : classPlaces true places with
      | silent => trivial
      | err c' =>
        simp only [places_err places c' hp, Res.bind]
        by_cases hcc : c = c'
        · subst hcc; simp [Meets]
        · simp only [hcc, if_false, Meets]
          rcases places_err_code places c' hp with h | h <;> simp [h]
      | ok p =>
        simp only [places_ok places p hp, Res.bind, number_err o number c hn, Meets]
    | ok n =>
      obtain ⟨na, h1, h2, h3⟩ := number_ok o number n hn
      have hw : inSide o n := by
        cases o with
        | dec => trivial
        | rad r => exact h3 r rfl
      cases hp : classPlaces true places with
      | silent => trivial
      | err c =>
        simp only [places_err places c hp, Res.bind]
        by_cases hin : inWindow r n
        · simp [hin, Meets]
        · simp only [hin, if_false]
          rcases places_err_code places c hp with h | h <;> simp [h, Meets]
      | ok p =>
        have := conversion_eq o (.rad r) hod na n h2 hw p
        simp only [places_ok places p hp, Res.bind, h1, this]
        by_cases hin : inWindow r n
        · simp only [hin, not_true, if_false]
          cases encode r n p <;> simp [Meets]
        · simp [hin, Meets]

theorem classNumber_err_arg (o : Side) (c : Code) : classNumber o (.err c) = .silent := by
  cases o <;> rfl

theorem classPlaces_err_arg (tp : Bool) (c : Code) : classPlaces tp (some (.err c)) = .silent := by
  cases tp <;> simp [classPlaces]

/-- **Refinement.**  For every function name, every number argument and every places argument
    (omitted or any value), the model of the registered function returns exactly what the ten-digit
    two's-complement reference semantics demands, wherever the statement speaks. -/
theorem impl_meets_spec (name : List Char) (number : S) (places : Option S) :
    Meets (want name number places) (call name number places) := by
  unfold want sides
  cases hf : functions.find? (fun f => f.1 = name) with
  | none => trivial
  | some f =>
    have hmem := List.mem_of_find?_eq_some hf
    have hname : f.1 = name := by simpa using List.find?_some hf
    obtain ⟨nm, o, d⟩ := f
    simp only at hname; subst hname
    have hod : o ≠ d := functions_distinct _ hmem
    have hw := table_wrappers _ hmem
    simp only at hw
    simp only [Option.map]
    unfold call
    rw [hw]
    simp only
    by_cases htp : ¬ (decide (d ≠ .dec) = true) ∧ places.isSome = true
    · rw [if_pos htp]
      have hdec : d = .dec := by simpa using htp.1
      subst hdec
      cases places with
      | none => simp at htp
      | some v =>
        rw [wantSides_silent_places o .dec number (some v) (by simp [classPlaces])]; trivial
    · rw [if_neg htp]
      cases hne : argError number with
      | some c =>
        have : number = .err c := by
          cases number <;> simp [argError] at hne; subst hne; rfl
        subst this
        rw [wantSides_silent_number o d _ places (classNumber_err_arg o c)]; trivial
      | none =>
        cases hpe : places.bind argError with
        | some c =>
          have : places = some (.err c) := by
            cases places with
            | none => simp at hpe
            | some v => cases v <;> simp [argError] at hpe; subst hpe; rfl
          subst this
          rw [wantSides_silent_places o d number _ (classPlaces_err_arg _ c)]; trivial
        | none => exact convert_meets o d hod number places

/-! ### the clauses of the statement -/

theorem sides_dec2 (r : Radix) : sides (dec2 r) = some (.dec, .rad r) := by cases r <;> decide
theorem sides_toDec (r : Radix) : sides (toDec r) = some (.rad r, .dec) := by cases r <;> decide
theorem sides_cross (r r' : Radix) (h : r ≠ r') : sides (cross r r') = some (.rad r, .rad r') := by
  cases r <;> cases r' <;> first | exact absurd rfl h | decide

/-- **there and back, reference level**: the reference digits of every integer of the window
    denote that integer. -/
theorem x2dec_inverse (r : Radix) (n : Int) (hw : inWindow r n) :
    decode r (refDigits r n) = some n := by
  have hb := base_range r
  have hh := half_add_half r
  have hmod : modulus r = r.b ^ 10 := rfl
  have hl := length_refDigits_le r n
  unfold inWindow at hw
  unfold decode
  have hlen : ¬ ((refDigits r n).length = 0 ∨ (refDigits r n).length > 10) := by omega
  rw [if_neg hlen, if_pos (mem_refDigits r n)]
  dsimp only
  congr 1
  unfold refDigits
  by_cases hneg : n < 0
  · rw [if_pos hneg, positional_fixed r.b (by omega) hb.2 10 _ (by rw [← hmod]; omega)]
    have : (n + (modulus r : Int)).toNat ≥ half r := by omega
    rw [if_pos this]; omega
  · rw [if_neg hneg, positional_stripZeros,
      positional_fixed r.b (by omega) hb.2 10 _ (by rw [← hmod]; omega)]
    have : ¬ n.toNat ≥ half r := by omega
    rw [if_neg this]; omega

theorem positional_zeros_append (b j : Nat) (s : List Char) :
    positional b (List.replicate j '0' ++ s) = positional b s := by
  induction j with
  | zero => simp
  | succ j ih =>
    have : digitValue '0' = 0 := by decide
    simp [List.replicate_succ, positional, this, ih]

/-- … also when they were left-padded with zeros to at most ten digits (only a non-negative
    integer has room for that). -/
theorem x2dec_inverse_padded (r : Radix) (n : Int) (hw : inWindow r n) (j : Nat)
    (hj : j + (refDigits r n).length ≤ 10) :
    decode r (List.replicate j '0' ++ refDigits r n) = some n := by
  have h := x2dec_inverse r n hw
  have hl := length_refDigits_le r n
  unfold decode at h ⊢
  have hlen0 : ¬ ((refDigits r n).length = 0 ∨ (refDigits r n).length > 10) := by omega
  rw [if_neg hlen0, if_pos (mem_refDigits r n)] at h
  have hv : ∀ c ∈ List.replicate j '0' ++ refDigits r n, c ∈ validDigits r := by
    intro c hc
    rcases List.mem_append.1 hc with hc | hc
    · have := (List.mem_replicate.1 hc).2; subst this
      exact digitCh_valid r 0 (by have := base_range r; omega)
    · exact mem_refDigits r n c hc
  have hlen : ¬ ((List.replicate j '0' ++ refDigits r n).length = 0 ∨
      (List.replicate j '0' ++ refDigits r n).length > 10) := by
    simp only [List.length_append, List.length_replicate]; omega
  rw [if_neg hlen, if_pos hv, positional_zeros_append]
  exact h

/-- **dec2x_spec**: DEC2BIN/OCT/HEX of every integer of the window, without `places`, is exactly
    the reference digits. -/
theorem dec2x_spec (r : Radix) (n : Int) (hw : inWindow r n) :
    call (dec2 r) (I n) none = .ok (T (refDigits r n)) := by
  have h := impl_meets_spec (dec2 r) (I n) none
  simp only [want, sides_dec2, wantSides, classNumber, asInteger, classPlaces, hw, not_true,
    if_false, encode] at h
  by_cases hneg : n < 0 <;> simpa [hneg, Meets] using h

/-- **places_rules (padding)**: with `places = k` in 1…10 a negative number keeps its ten digits,
    a non-negative one is left-padded with zeros to `k` digits, and #NUM! results when it does
    not fit. -/
theorem dec2x_places (r : Radix) (n : Int) (hw : inWindow r n) (k : Nat) (hk : 1 ≤ k ∧ k ≤ 10) :
    call (dec2 r) (I n) (some (I k)) =
      if n < 0 then .ok (T (refDigits r n))
      else if (refDigits r n).length > k then .err .num
      else .ok (T (List.replicate (k - (refDigits r n).length) '0' ++ refDigits r n)) := by
  have h := impl_meets_spec (dec2 r) (I n) (some (I k))
  have hk' : (1 : Int) ≤ k ∧ (k : Int) ≤ 10 := by omega
  simp only [want, sides_dec2, wantSides, classNumber, asInteger, classPlaces, hw, not_true,
    if_false, encode, ne_eq, reduceCtorEq, not_false_eq_true, decide_true, hk', and_self, if_true,
    Int.toNat_natCast] at h
  by_cases hneg : n < 0
  · simpa [hneg, Meets] using h
  · by_cases hlen : (refDigits r n).length > k
    · simpa [hneg, hlen, Meets] using h
    · simpa [hneg, hlen, Meets] using h

/-- **places_rules (range)**: a `places` outside 1…10 gives #NUM!, for every integer. -/
theorem places_out_of_range (r : Radix) (n k : Int) (hk : k < 1 ∨ k > 10) :
    call (dec2 r) (I n) (some (I k)) = .err .num := by
  have h := impl_meets_spec (dec2 r) (I n) (some (I k))
  have hk' : ¬ ((1 : Int) ≤ k ∧ k ≤ 10) := by omega
  simp only [want, sides_dec2, wantSides, classNumber, asInteger, classPlaces, ne_eq, reduceCtorEq,
    not_false_eq_true, decide_true, hk', if_false, not_true] at h
  by_cases hw : inWindow r n <;> simpa [hw, Meets] using h

/-- **places_rules**: for every integer of the window — `places` outside 1…10 is #NUM!; inside, a
    negative result keeps its ten digits, a non-negative one is zero-padded to `places`, #NUM! when
    `places` is too small. -/
theorem places_rules (r : Radix) (n : Int) (hw : inWindow r n) :
    (∀ k : Int, k < 1 ∨ k > 10 → call (dec2 r) (I n) (some (I k)) = .err .num) ∧
    (∀ k : Nat, 1 ≤ k ∧ k ≤ 10 → call (dec2 r) (I n) (some (I k)) =
      if n < 0 then .ok (T (refDigits r n))
      else if (refDigits r n).length > k then .err .num
      else .ok (T (List.replicate (k - (refDigits r n).length) '0' ++ refDigits r n))) :=
  ⟨fun k hk => places_out_of_range r n k hk, fun k hk => dec2x_places r n hw k hk⟩

example : inWindow .hex (-549755813888) ∧ (refDigits .bin 5).length > 2 := by decide

/-- **out_of_window_NUM**: DEC2BIN/OCT/HEX of an integer outside the window is #NUM!, with or
    without (any integer) `places`. -/
theorem out_of_window_NUM (r : Radix) (n : Int) (hw : ¬ inWindow r n) :
    call (dec2 r) (I n) none = .err .num ∧ ∀ k : Int, call (dec2 r) (I n) (some (I k)) = .err .num := by
  constructor
  · have h := impl_meets_spec (dec2 r) (I n) none
    simpa [want, sides_dec2, wantSides, classNumber, asInteger, classPlaces, hw, Meets] using h
  · intro k
    by_cases hk : 1 ≤ k ∧ k ≤ 10
    · have h := impl_meets_spec (dec2 r) (I n) (some (I k))
      simpa [want, sides_dec2, wantSides, classNumber, asInteger, classPlaces, hw, hk, Meets] using h
    · exact places_out_of_range r n k (by omega)

/-- **x2dec_spec**: BIN/OCT/HEX2DEC of every digit string (1…10 digits of the base) is the
    integer it denotes in ten-digit two's complement. -/
theorem x2dec_spec (r : Radix) (s : List Char) (n : Int) (h : decode r s = some n) :
    call (toDec r) (T s) none = .ok (I n) := by
  have hne : s.isEmpty = false := by
    cases s with
    | nil => simp [decode] at h
    | cons _ _ => rfl
  have hm := impl_meets_spec (toDec r) (T s) none
  simpa [want, sides_toDec, wantSides, classNumber, classPlaces, hne, h, Meets] using hm

/-- **roundtrip**: for every integer of the window of each base, converting there and back is
    the identity: `X2DEC(DEC2X(n)) = n`. -/
theorem roundtrip (r : Radix) (n : Int) (hw : inWindow r n) :
    ∃ s, call (dec2 r) (I n) none = .ok (T s) ∧ call (toDec r) (T s) none = .ok (I n) :=
  ⟨refDigits r n, dec2x_spec r n hw, x2dec_spec r _ n (x2dec_inverse r n hw)⟩

/-- … also through a zero-padded result: `X2DEC(DEC2X(n, k)) = n` whenever `DEC2X(n, k)` is a text. -/
theorem roundtrip_places (r : Radix) (n : Int) (hw : inWindow r n) (k : Nat) (hk : 1 ≤ k ∧ k ≤ 10)
    (s : List Char) (hs : call (dec2 r) (I n) (some (I k)) = .ok (T s)) :
    call (toDec r) (T s) none = .ok (I n) := by
  rw [dec2x_places r n hw k hk] at hs
  by_cases hneg : n < 0
  · rw [if_pos hneg] at hs; injection hs with hs; injection hs with hs; subst hs
    exact x2dec_spec r _ n (x2dec_inverse r n hw)
  · rw [if_neg hneg] at hs
    by_cases hlen : (refDigits r n).length > k
    · rw [if_pos hlen] at hs; cases hs
    · rw [if_neg hlen] at hs; injection hs with hs; injection hs with hs; subst hs
      exact x2dec_spec r _ n (x2dec_inverse_padded r n hw _ (by omega))

/-- **cross_spec**: a cross conversion of a digit string whose integer lies in the window of the
    destination gives the reference digits of that integer in the destination base; outside the
    destination's window it gives #NUM!. -/
theorem cross_spec (r r' : Radix) (hr : r ≠ r') (s : List Char) (n : Int) (h : decode r s = some n) :
    call (cross r r') (T s) none =
      if inWindow r' n then .ok (T (refDigits r' n)) else .err .num := by
  have hne : s.isEmpty = false := by
    cases s with
    | nil => simp [decode] at h
    | cons _ _ => rfl
  have hm := impl_meets_spec (cross r r') (T s) none
  simp only [want, sides_cross r r' hr, wantSides, classNumber, classPlaces, hne, h, encode,
    Bool.false_eq_true, if_false] at hm
  by_cases hw : inWindow r' n
  · by_cases hneg : n < 0 <;> simpa [hw, hneg, Meets] using hm
  · simpa [hw, Meets] using hm

/-- **cross round trip**: for an integer in both windows, `Y2X(X2Y(digits of n in X))` is the
    digits of n in X again. -/
theorem cross_roundtrip (r r' : Radix) (hr : r ≠ r') (n : Int) (hw : inWindow r n)
    (hw' : inWindow r' n) :
    ∃ t, call (cross r r') (T (refDigits r n)) none = .ok (T t) ∧
         call (cross r' r) (T t) none = .ok (T (refDigits r n)) := by
  refine ⟨refDigits r' n, ?_, ?_⟩
  · rw [cross_spec r r' hr _ n (x2dec_inverse r n hw), if_pos hw']
  · rw [cross_spec r' r (Ne.symm hr) _ n (x2dec_inverse r' n hw'), if_pos hw]

/-- **bad_digits_NUM**: a non-empty text that is not 1…10 digits of the base — a foreign
    character, a sign, a blank, a decimal point, more than ten characters — gives #NUM! in every
    function that reads a digit string. -/
theorem bad_digits_NUM (r : Radix) (s : List Char) (hs : s ≠ [])
    (hbad : s.length > 10 ∨ ∃ c ∈ s, c ∉ validDigits r) :
    call (toDec r) (T s) none = .err .num ∧
    ∀ r', r ≠ r' → call (cross r r') (T s) none = .err .num := by
  have hne : s.isEmpty = false := by cases s with
    | nil => exact absurd rfl hs
    | cons _ _ => rfl
  have hd : decode r s = none := by
    unfold decode
    rcases hbad with h | ⟨c, hc, hcv⟩
    · rw [if_pos (Or.inr h)]
    · by_cases hl : s.length = 0 ∨ s.length > 10
      · rw [if_pos hl]
      · rw [if_neg hl, if_neg (fun hall => hcv (hall c hc))]
  constructor
  · have hm := impl_meets_spec (toDec r) (T s) none
    simpa [want, sides_toDec, wantSides, classNumber, classPlaces, hne, hd, Meets] using hm
  · intro r' hr
    have hm := impl_meets_spec (cross r r') (T s) none
    simpa [want, sides_cross r r' hr, wantSides, classNumber, classPlaces, hne, hd, Meets] using hm

/-- **fractional digit strings**: a number that is not an integer, a negative number and a number
    of more than ten digits give #NUM! where a digit string is expected. -/
theorem fractional_NUM (r : Radix) (x : Num)
    (hx : asInteger x = none ∨ ∃ z, asInteger x = some z ∧ (z < 0 ∨ z ≥ 10 ^ 10)) :
    call (toDec r) (.num x) none = .err .num := by
  have hm := impl_meets_spec (toDec r) (.num x) none
  rcases hx with hx | ⟨z, hx, hz | hz⟩
  · simpa [want, sides_toDec, wantSides, classNumber, classPlaces, hx, Meets] using hm
  · simpa [want, sides_toDec, wantSides, classNumber, classPlaces, hx, hz, Meets] using hm
  · have h1 : ¬ z < 0 := by omega
    have h2 : (10000000000 : Int) ≤ z := by omega
    simpa [want, sides_toDec, wantSides, classNumber, classPlaces, hx, h1, h2, Meets] using hm

theorem sides_all : ∀ f ∈ functions, sides f.1 = some f.2 := by decide

/-- **boolean_VALUE**: a boolean `number` gives #VALUE! in all twelve functions (places omitted),
    and a boolean `places` gives #VALUE! for every integer of the window. -/
theorem boolean_VALUE (b : Bool) :
    (∀ f ∈ functions, call f.1 (.bool b) none = .err .value) ∧
    (∀ r n, inWindow r n → call (dec2 r) (I n) (some (.bool b)) = .err .value) := by
  constructor
  · intro f hf
    have hm := impl_meets_spec f.1 (.bool b) none
    have hs : sides f.1 = some f.2 := sides_all f hf
    obtain ⟨nm, o, d⟩ := f
    simp only at hs hm
    cases d <;> simpa [want, hs, wantSides, classNumber, classPlaces, Meets] using hm
  · intro r n hw
    have hm := impl_meets_spec (dec2 r) (I n) (some (.bool b))
    simpa [want, sides_dec2, wantSides, classNumber, asInteger, classPlaces, hw, Meets] using hm

theorem alphabet_upper : ∀ c ∈ alphabet, ¬ ('a' ≤ c ∧ c ≤ 'z') := by decide
theorem digitCh_alphabet : ∀ d, d < 16 → digitCh d ∈ alphabet := by decide

/-- **upper case**: the reference digits — hence, by `dec2x_spec`, `dec2x_places` and
    `cross_spec`, every digit string the functions return — consist of `0…9A…F` only. -/
theorem digits_upper_case (r : Radix) (n : Int) :
    ∀ c ∈ refDigits r n, c ∈ alphabet ∧ ¬ ('a' ≤ c ∧ c ≤ 'z') := by
  intro c hc
  have hb := base_range r
  have hfix : ∀ v, c ∈ fixed r.b 10 v → c ∈ alphabet := by
    intro v hv
    obtain ⟨d, hd, rfl⟩ := mem_fixed r.b (by omega) c 10 v hv
    exact digitCh_alphabet d (by omega)
  have : c ∈ alphabet := by
    unfold refDigits at hc
    split at hc
    · exact hfix _ hc
    · rcases mem_stripZeros hc with h | h
      · subst h; decide
      · exact hfix _ h
  exact ⟨this, alphabet_upper c this⟩

/-! ### the binary window decided completely by the kernel -/

/-- every integer of the binary window × places omitted and every places value 1…10, through the
    model of DEC2BIN, against the reference semantics (`Lemmas.C19.windowChunk`), and the round trip
    BIN2DEC(DEC2BIN(n)) = n for every integer of the window — by kernel evaluation
    (`decide +kernel` in `Lemmas/C19Window.lean`), in addition to the arithmetic proofs above. -/
theorem binary_window_decided :
    windowChunk (-512) 1024 = true ∧ windowEdges = true ∧ windowRoundtrip = true :=
  ⟨window_ok, window_edges_ok, window_roundtrip_ok⟩

/-! ### non-vacuity -/
example : inWindow .bin (-512) ∧ inWindow .oct 536870911 ∧ ¬ inWindow .hex 549755813888 := by decide
example : call (dec2 .bin) (I (-5)) (some (I 3)) = .ok (T ['1', '1', '1', '1', '1', '1', '1', '0', '1', '1']) := by
  decide
example : call (dec2 .hex) (I 255) (some (I 4)) = .ok (T ['0', '0', 'F', 'F']) := by decide
example : call (toDec .hex) (T ['f', 'f', 'F', 'F', 'F', 'F', 'F', 'F', 'F', 'F']) none = .ok (I (-1)) := by decide
example : call (cross .hex .bin) (T ['F', 'F', 'F', 'F', 'F', 'F', 'F', 'E', '0', '0']) none
    = .ok (T ['1', '0', '0', '0', '0', '0', '0', '0', '0', '0']) := by decide
example : call (cross .hex .bin) (T ['F', 'F', 'F', 'F', 'F', 'F', 'F', 'D', 'F', 'F']) none = .err .num := by
  decide
example : call (toDec .oct) (T ['7', '8']) none = .err .num := by decide
example : call (toDec .bin) (.num (.flt (3 / 2))) none = .err .num :=
  fractional_NUM .bin (.flt (3 / 2)) (Or.inl (by decide +kernel))
example : call (dec2 .oct) (.bool true) none = .err .value := by decide

end XlVerif.Props.C19
