/-
  C20 — financial functions satisfy their defining equations.

  Theorems are about `Model.C20` (the mirror of financial.py, PMT/PV through the hand model of the
  numpy_financial closed forms) and hold over ℚ ("ideal reals") for *every* rate, cash-flow list and
  number of periods named in their hypotheses.  The correspondence check ties `Model.C20` to the
  running code (within 1e-9 relative: IEEE rounding is not modelled).

  IRR and XIRR are "the solver's output" in the model; what is proved is the *certificate*: the
  discounted sum of an outlay followed by non-negative returns with positive total is strictly
  decreasing on (−1, ∞) — over any ordered field, so also over ℝ where the root lives — hence two exact
  rational evaluations with opposite signs enclose every root (`irr_certificate`).
-/
import XlVerif.Lemmas.C20
namespace XlVerif.Props.C20
open XlVerif XlVerif.Model.C20 XlVerif.Spec.C20 XlVerif.Lemmas.C20

/-- table obligation: the shipped compatibility mode is the Excel one (re-checked against the
    regenerated `Gen.Misc` on every run; the theorems below are about that mode). -/
theorem compat_excel : ¬ (Gen.compatibility = "PYTHON".toList) := by decide

/-! ### NPV -/

theorem npvTerms_sum (r : ℚ) (cs : List ℚ) (i : Nat) :
    pySum (npvTerms r cs i) = pvFrom r (i + 1) cs := by
  induction cs generalizing i with
  | nil => simp [npvTerms, pvFrom]
  | cons c cs ih => simp only [npvTerms, pvFrom, pySum_cons, ih]; rw [div_eq_mul_inv]

/-- **NPV(r, c₁…cₙ) = Σ cᵢ/(1+r)^i, i from 1**, for every non-empty list and every rate ≠ −1. -/
theorem npv_def (r : ℚ) (cs : List ℚ) (hne : cs ≠ []) (hr : r ≠ -1) :
    NPV r cs = .ok (npv r cs) := by
  have h1 : ¬ (cs.length = 0) := by simpa using hne
  have h2 : ¬ (1 + r = 0) := fun h => hr (by linarith)
  simp only [NPV, h1, compat_excel, h2, if_false, npvTerms_sum, npv]

example : NPV (1 / 10) [-100, 0, 110] = .ok (npv (1 / 10) [-100, 0, 110]) :=
  npv_def _ _ (by simp) (by norm_num)

/-- the error branches of the code: no value → #VALUE!, rate = −1 → ZeroDivisionError -/
theorem npv_errors (r : ℚ) (c : ℚ) (cs : List ℚ) :
    NPV r [] = .err .value ∧ NPV (-1) (c :: cs) = .crash .zeroDivision := by
  constructor
  · simp [NPV]
  · have h : ¬ ((c :: cs).length = 0) := by simp
    have h2 : (1 : ℚ) + -1 = 0 := by norm_num
    simp only [NPV, h, compat_excel, h2, if_false, if_true]

theorem pvFrom_add (r : ℚ) (k : Nat) : ∀ (cs ds : List ℚ), cs.length = ds.length →
    pvFrom r k (List.zipWith (· + ·) cs ds) = pvFrom r k cs + pvFrom r k ds := by
  intro cs
  induction cs generalizing k with
  | nil => intro ds h; cases ds <;> simp_all [pvFrom]
  | cons c cs ih =>
    intro ds h
    cases ds with
    | nil => simp at h
    | cons d ds =>
      simp only [List.zipWith_cons_cons, pvFrom, ih (k + 1) ds (by simpa using h)]
      ring

theorem pvFrom_smul (r a : ℚ) (k : Nat) (cs : List ℚ) :
    pvFrom r k (cs.map (a * ·)) = a * pvFrom r k cs := by
  induction cs generalizing k with
  | nil => simp [pvFrom]
  | cons c cs ih => simp only [List.map_cons, pvFrom, ih]; ring

/-- **NPV is linear in the cash flows**: additive on lists of equal length and homogeneous. -/
theorem npv_linear (r : ℚ) (hr : r ≠ -1) (cs ds : List ℚ) (hne : cs ≠ []) (hlen : cs.length = ds.length)
    (a : ℚ) :
    NPV r (List.zipWith (· + ·) cs ds) = .ok (npv r cs + npv r ds) ∧
    NPV r (cs.map (a * ·)) = .ok (a * npv r cs) := by
  have hz : List.zipWith (· + ·) cs ds ≠ [] := by
    cases cs with
    | nil => exact absurd rfl hne
    | cons c cs => cases ds with
      | nil => simp at hlen
      | cons d ds => simp
  have hm : cs.map (a * ·) ≠ [] := by simpa using hne
  constructor
  · rw [npv_def r _ hz hr]; simp only [npv, pvFrom_add r 1 cs ds hlen]
  · rw [npv_def r _ hm hr]; simp only [npv, pvFrom_smul]

example : NPV (1 / 10) (List.zipWith (· + ·) [-100, 50] [3, 4]) = .ok (npv (1 / 10) [-100, 50] + npv (1 / 10) [3, 4]) :=
  (npv_linear (1 / 10) (by norm_num) [-100, 50] [3, 4] (by simp) rfl 1).1

theorem pvFrom_rate0 (k : Nat) (cs : List ℚ) : pvFrom 0 k cs = cs.sum := by
  induction cs generalizing k with
  | nil => simp [pvFrom]
  | cons c cs ih => simp [pvFrom, ih]

/-- **at rate 0 NPV is the plain sum** -/
theorem npv_rate0 (cs : List ℚ) (hne : cs ≠ []) : NPV 0 cs = .ok cs.sum := by
  rw [npv_def 0 cs hne (by norm_num), npv, pvFrom_rate0]

example : NPV 0 [1, 2, 3] = .ok 6 := by rw [npv_rate0 _ (by simp)]; norm_num

/-! ### PV and PMT: the numpy_financial closed forms solve the annuity recursion -/

theorem npfPv_eq (r : ℚ) (n : Nat) (pmt fv when : ℚ) (hr : r ≠ -1) :
    npfPv r n pmt fv when = .ok (pvClosed r n pmt fv when) := by
  have h1 : (1 + r) ≠ 0 := fun h => hr (by linarith)
  have h2 : (1 + r) ^ n ≠ 0 := pow_ne_zero _ h1
  unfold npfPv pvClosed
  simp only [h2, if_false]
  by_cases h0 : r = 0
  · subst h0; simp
  · simp only [h0, if_false]; congr 1; field_simp

/-- the closed form satisfies the defining equation, for both timings and any future value -/
theorem pvClosed_annuity (r : ℚ) (n : Nat) (pmt fv : ℚ) (w : Bool) (hr : r ≠ -1) :
    Annuity r n (pvClosed r n pmt fv (if w then 1 else 0)) pmt fv w := by
  have h1 : (1 + r) ≠ 0 := fun h => hr (by linarith)
  have h2 : (1 + r) ^ n ≠ 0 := pow_ne_zero _ h1
  unfold Annuity
  rw [balance_eq]
  unfold pvClosed
  by_cases h0 : r = 0
  · subst h0; cases w <;> simp [geom_one]
  · have hg : geom (1 + r) n = ((1 + r) ^ n - 1) / r := by
      have := geom_mul (1 + r) n
      rw [eq_div_iff h0, ← this]; ring
    simp only [h0, if_false, hg]
    cases w <;> simp only [Bool.false_eq_true, if_true, if_false] <;> field_simp <;> ring

/-- the defining equation determines the present value -/
theorem annuity_pv_unique (r : ℚ) (n : Nat) (x y pmt fv : ℚ) (w : Bool) (hr : r ≠ -1)
    (hx : Annuity r n x pmt fv w) (hy : Annuity r n y pmt fv w) : x = y := by
  have h1 : (1 + r) ≠ 0 := fun h => hr (by linarith)
  have h2 : (1 + r) ^ n ≠ 0 := pow_ne_zero _ h1
  unfold Annuity at hx hy
  rw [balance_eq] at hx hy
  have : (x - y) * (1 + r) ^ n = 0 := by linarith
  rcases mul_eq_zero.mp this with h | h
  · linarith
  · exact absurd h h2

/-- **PV closed form, both timings, with future value**: for every rate ≠ −1, every number of
    periods, payment, future value and `type ∈ {0, 1}` the code's PV is the closed form of the
    statement, and it is *the* present value that satisfies the annuity equation. -/
theorem pv_closed_form (r : ℚ) (n : Nat) (pmt fv : ℚ) (w : Bool) (hr : r ≠ -1) :
    PV r n pmt fv (.int (if w then 1 else 0)) = .ok (pvClosed r n pmt fv (if w then 1 else 0)) ∧
    Annuity r n (pvClosed r n pmt fv (if w then 1 else 0)) pmt fv w ∧
    ∀ x, Annuity r n x pmt fv w → x = pvClosed r n pmt fv (if w then 1 else 0) := by
  refine ⟨?_, pvClosed_annuity r n pmt fv w hr, fun x hx =>
    annuity_pv_unique r n _ _ pmt fv w hr hx (pvClosed_annuity r n pmt fv w hr)⟩
  cases w <;> simp [PV, pyInt, npfPv_eq _ _ _ _ _ hr]

example : PV (1 / 20) 10 (-100) 50 (.int 1) = .ok (pvClosed (1 / 20) 10 (-100) 50 1) :=
  (pv_closed_form (1 / 20) 10 (-100) 50 true (by norm_num)).1

/-- a float-typed `type` is truncated (`int(type)`); any other integer than 0/1 raises TypeError -/
theorem pv_type_handling (r : ℚ) (n : Nat) (pmt fv : ℚ) (z : Int) (hz : z ≠ 0 ∧ z ≠ 1) :
    PV r n pmt fv (.int z) = .crash .typeError := by
  simp [PV, pyInt, hz.1, hz.2]

example : PV (1 / 20) 10 (-100) 50 (.int 2) = .crash .typeError :=
  pv_type_handling _ _ _ _ 2 (by decide)

/-- the reference value computed from the recursion alone equals the closed form -/
theorem solvePV_eq (r : ℚ) (n : Nat) (pmt fv : ℚ) (w : Bool) (hr : r ≠ -1) :
    solvePV r n pmt fv w = pvClosed r n pmt fv (if w then 1 else 0) := by
  have h1 : (1 + r) ≠ 0 := fun h => hr (by linarith)
  have h2 : (1 + r) ^ n ≠ 0 := pow_ne_zero _ h1
  apply annuity_pv_unique r n _ _ pmt fv w hr _ (pvClosed_annuity r n pmt fv w hr)
  unfold Annuity solvePV
  simp only [balance_eq]
  field_simp
  ring

/-- **at rate 0 PV is a plain sum** -/
theorem pv_rate0 (n : Nat) (pmt fv : ℚ) (w : Bool) :
    PV 0 n pmt fv (.int (if w then 1 else 0)) = .ok (-(fv + pmt * n)) := by
  rw [(pv_closed_form 0 n pmt fv w (by norm_num)).1]; simp [pvClosed]

example : PV 0 10 (-100) 50 (.int 1) = .ok 950 := by
  have h := pv_rate0 10 (-100) 50 true
  simp only [if_true] at h
  rw [h]; norm_num

/-- the annuity factor does not vanish for rates above −1 and at least one period -/
theorem fact_ne_zero (r : ℚ) (n : Nat) (hr : -1 < r) (hn : 0 < n) (h0 : r ≠ 0) :
    (1 + r) ^ n - 1 ≠ 0 := by
  have h1 : 0 < 1 + r := by linarith
  rcases lt_or_gt_of_ne h0 with h | h
  · have : (1 + r) ^ n < 1 := pow_lt_one₀ h1.le (by linarith) (by omega)
    linarith
  · have : 1 < (1 + r) ^ n := one_lt_pow₀ (by linarith) (by omega)
    linarith

theorem npfPmt_eq (r : ℚ) (n : Nat) (pv fv when : ℚ) (hr : -1 < r) (hn : 0 < n)
    (hw : when = 0 ∨ when = 1) :
    npfPmt r n pv fv when = .ok (pmtClosed r n pv fv when) := by
  unfold npfPmt pmtClosed
  by_cases h0 : r = 0
  · subst h0
    have : (n : ℚ) ≠ 0 := by exact_mod_cast (by omega : n ≠ 0)
    simp [this]
  · have hf := fact_ne_zero r n hr hn h0
    have hw' : 1 + r * when ≠ 0 := by rcases hw with h | h <;> subst h <;> [simp; (linarith)]
    have hfact : (1 + r * when) * ((1 + r) ^ n - 1) / r ≠ 0 :=
      div_ne_zero (mul_ne_zero hw' hf) h0
    simp only [h0, if_false, hfact]
    congr 1
    field_simp

/-- the payment closed form satisfies the defining equation -/
theorem pmtClosed_annuity (r : ℚ) (n : Nat) (pv fv : ℚ) (w : Bool) (hr : -1 < r) (hn : 0 < n) :
    Annuity r n pv (pmtClosed r n pv fv (if w then 1 else 0)) fv w := by
  unfold Annuity
  rw [balance_eq]
  unfold pmtClosed
  by_cases h0 : r = 0
  · subst h0
    have : (n : ℚ) ≠ 0 := by exact_mod_cast (by omega : n ≠ 0)
    cases w <;> simp [geom_one] <;> field_simp <;> ring
  · have hf := fact_ne_zero r n hr hn h0
    have h1 : (1 + r) ≠ 0 := by linarith
    have hg : geom (1 + r) n = ((1 + r) ^ n - 1) / r := by
      have := geom_mul (1 + r) n
      rw [eq_div_iff h0, ← this]; ring
    simp only [h0, if_false, hg]
    cases w <;> simp only [Bool.false_eq_true, if_true, if_false] <;> field_simp <;> ring

/-- the defining equation determines the payment (rates above −1, at least one period) -/
theorem annuity_pmt_unique (r : ℚ) (n : Nat) (pv x y fv : ℚ) (w : Bool) (hr : -1 < r) (hn : 0 < n)
    (hx : Annuity r n pv x fv w) (hy : Annuity r n pv y fv w) : x = y := by
  have h1 : 0 < 1 + r := by linarith
  unfold Annuity at hx hy
  rw [balance_eq] at hx hy
  have hg := geom_pos (1 + r) h1 n hn
  have hs : (0 : ℚ) < (if w then 1 + r else 1) := by cases w <;> simp [h1]
  have : (x - y) * ((if w then 1 + r else 1) * geom (1 + r) n) = 0 := by linarith
  rcases mul_eq_zero.mp this with h | h
  · linarith
  · exact absurd h (mul_pos hs hg).ne'

/-- **PMT closed form (payments at period end, with future value)**: for every rate > −1, every
    `n ≥ 1`, present and future value, the code's PMT is the closed form of the statement and the
    unique payment satisfying the annuity equation.  (`type` is ignored by the code in the shipped
    Excel mode; the statement speaks about payments at period end only.) -/
theorem pmt_closed_form (r : ℚ) (n : Nat) (pv fv type : ℚ) (hr : -1 < r) (hn : 0 < n) :
    PMT r n pv fv type = .ok (pmtClosed r n pv fv 0) ∧
    Annuity r n pv (pmtClosed r n pv fv 0) fv false ∧
    ∀ x, Annuity r n pv x fv false → x = pmtClosed r n pv fv 0 := by
  refine ⟨?_, pmtClosed_annuity r n pv fv false hr hn, fun x hx =>
    annuity_pmt_unique r n pv _ _ fv false hr hn hx (pmtClosed_annuity r n pv fv false hr hn)⟩
  simp only [PMT, compat_excel, if_false]
  exact npfPmt_eq r n pv fv 0 hr hn (Or.inl rfl)

example : PMT (1 / 20) 10 1000 50 0 = .ok (pmtClosed (1 / 20) 10 1000 50 0) :=
  (pmt_closed_form (1 / 20) 10 1000 50 0 (by norm_num) (by norm_num)).1

/-- the library closed form is right for payments at the beginning of the period too
    (reached by the code only in `'PYTHON'` compatibility mode) -/
theorem npfPmt_begin (r : ℚ) (n : Nat) (pv fv : ℚ) (hr : -1 < r) (hn : 0 < n) :
    npfPmt r n pv fv 1 = .ok (pmtClosed r n pv fv 1) ∧ Annuity r n pv (pmtClosed r n pv fv 1) fv true :=
  ⟨npfPmt_eq r n pv fv 1 hr hn (Or.inr rfl), pmtClosed_annuity r n pv fv true hr hn⟩

theorem solvePMT_eq (r : ℚ) (n : Nat) (pv fv : ℚ) (w : Bool) (hr : -1 < r) (hn : 0 < n) :
    solvePMT r n pv fv w = pmtClosed r n pv fv (if w then 1 else 0) := by
  have h1 : 0 < 1 + r := by linarith
  have hg := geom_pos (1 + r) h1 n hn
  have hs : (0 : ℚ) < (if w then 1 + r else 1) := by cases w <;> simp [h1]
  apply annuity_pmt_unique r n pv _ _ fv w hr hn _ (pmtClosed_annuity r n pv fv w hr hn)
  unfold Annuity solvePMT
  simp only [balance_eq]
  have := (mul_pos hs hg).ne'
  field_simp
  ring

/-- **at rate 0 PMT is a plain quotient** -/
theorem pmt_rate0 (n : Nat) (pv fv type : ℚ) (hn : 0 < n) :
    PMT 0 n pv fv type = .ok (-(fv + pv) / n) := by
  rw [(pmt_closed_form 0 n pv fv type (by norm_num) hn).1]; simp [pmtClosed]

example : PMT 0 10 1000 50 0 = .ok (-105) := by rw [pmt_rate0 10 1000 50 0 (by norm_num)]; norm_num

/-- **PV and PMT invert each other**: `PV(r, n, PMT(r, n, pv, fv), fv) = pv` for every rate > −1
    (including 0), every `n ≥ 1`, every `pv` and `fv`. -/
theorem pmt_pv_inverse (r : ℚ) (n : Nat) (pv fv type : ℚ) (hr : -1 < r) (hn : 0 < n) :
    ∃ p, PMT r n pv fv type = .ok p ∧ PV r n p fv (.int 0) = .ok pv := by
  obtain ⟨h1, h2, _⟩ := pmt_closed_form r n pv fv type hr hn
  have hr' : r ≠ -1 := by linarith
  obtain ⟨h3, _, h5⟩ := pv_closed_form r n (pmtClosed r n pv fv 0) fv false hr'
  refine ⟨_, h1, ?_⟩
  simp only [Bool.false_eq_true, if_false] at h3 h5
  rw [h3, ← h5 pv h2]

/-- … and the other way round: `PMT(r, n, PV(r, n, pmt, fv), fv) = pmt`. -/
theorem pv_pmt_inverse (r : ℚ) (n : Nat) (pmt fv type : ℚ) (hr : -1 < r) (hn : 0 < n) :
    ∃ p, PV r n pmt fv (.int 0) = .ok p ∧ PMT r n p fv type = .ok pmt := by
  have hr' : r ≠ -1 := by linarith
  obtain ⟨h3, h4, _⟩ := pv_closed_form r n pmt fv false hr'
  simp only [Bool.false_eq_true, if_false] at h3 h4
  obtain ⟨h1, _, h6⟩ := pmt_closed_form r n (pvClosed r n pmt fv 0) fv type hr hn
  exact ⟨_, h3, by rw [h1, ← h6 pmt h4]⟩

example : ∃ p, PV (1 / 20) 10 (-100) 50 (.int 0) = .ok p ∧ PMT (1 / 20) 10 p 50 0 = .ok (-100) :=
  pv_pmt_inverse _ _ _ _ _ (by norm_num) (by norm_num)

example : ∃ p, PMT (1 / 20) 10 1000 0 0 = .ok p ∧ PV (1 / 20) 10 p 0 (.int 0) = .ok 1000 :=
  pmt_pv_inverse _ _ _ _ _ (by norm_num) (by norm_num)

/-! ### SLN -/

/-- **SLN = (cost − salvage)/life** for every life ≠ 0; life = 0 gives #DIV/0!. -/
theorem sln_def (cost salvage life : ℚ) :
    (life ≠ 0 → SLN cost salvage life = .ok (sln cost salvage life)) ∧
    SLN cost salvage 0 = .err .div0 := by
  constructor
  · intro h; simp [SLN, sln, h]
  · simp [SLN]

example : SLN 100 10 5 = .ok 18 := by rw [(sln_def 100 10 5).1 (by norm_num)]; norm_num [sln]

/-! ### XNPV (for any discount weights) -/

theorem xnpvTerms_sum (w : ℚ → ℚ → ℚ) (r d0 : ℚ) : ∀ (vs ds : List ℚ),
    pySum (xnpvTerms w r d0 vs ds) = xnpvFrom (w (1 + r)) d0 vs ds := by
  intro vs
  induction vs with
  | nil => intro ds; simp [xnpvTerms, xnpvFrom]
  | cons v vs ih =>
    intro ds
    cases ds with
    | nil => simp [xnpvTerms, xnpvFrom]
    | cons d ds => simp only [xnpvTerms, xnpvFrom, pySum_cons, ih]

/-- **XNPV(r, v, d) = Σ vᵢ / (1+r)^((dᵢ − d₁)/365)** for ranges of equal length and rates > −1,
    whatever the power function is (`w b t` stands for `b ** t`). -/
theorem xnpv_def (w : ℚ → ℚ → ℚ) (r : ℚ) (vs ds : List ℚ) (hlen : vs.length = ds.length) (hr : -1 < r) :
    XNPV w r vs ds = .ok (xnpv (w (1 + r)) vs ds) := by
  have h1 : ¬ (vs.length ≠ ds.length) := by simpa using hlen
  have h2 : ¬ (r ≤ -1) := not_le.mpr hr
  simp only [XNPV, h1, if_false, _xnpv, h2, xnpv]
  cases ds with
  | nil => rfl
  | cons d ds => simp only [xnpvTerms_sum]

example (w : ℚ → ℚ → ℚ) : XNPV w (1 / 10) [-100, 0, 110] [43831, 43900, 44196]
    = .ok (xnpv (w (1 + 1 / 10)) [-100, 0, 110] [43831, 43900, 44196]) :=
  xnpv_def w _ _ _ rfl (by norm_num)

/-- the branches of the code outside the formula: unequal lengths → #NUM!, rate ≤ −1 → +inf -/
theorem xnpv_errors (w : ℚ → ℚ → ℚ) (r : ℚ) (vs ds : List ℚ) :
    (vs.length ≠ ds.length → XNPV w r vs ds = .err .num) ∧
    (vs.length = ds.length → r ≤ -1 → XNPV w r vs ds = .posInf) := by
  constructor
  · intro h; simp [XNPV, h]
  · intro h hr; simp [XNPV, h, _xnpv, hr]

theorem xnpvFrom_add (W : ℚ → ℚ) (d1 : ℚ) : ∀ (vs us ds : List ℚ), vs.length = us.length →
    xnpvFrom W d1 (List.zipWith (· + ·) vs us) ds = xnpvFrom W d1 vs ds + xnpvFrom W d1 us ds := by
  intro vs
  induction vs with
  | nil => intro us ds h; cases us <;> simp_all [xnpvFrom]
  | cons v vs ih =>
    intro us ds h
    cases us with
    | nil => simp at h
    | cons u us =>
      cases ds with
      | nil => simp [xnpvFrom]
      | cons d ds =>
        simp only [List.zipWith_cons_cons, xnpvFrom, ih us ds (by simpa using h)]
        ring

theorem xnpvFrom_smul (W : ℚ → ℚ) (d1 a : ℚ) : ∀ (vs ds : List ℚ),
    xnpvFrom W d1 (vs.map (a * ·)) ds = a * xnpvFrom W d1 vs ds := by
  intro vs
  induction vs with
  | nil => intro ds; simp [xnpvFrom]
  | cons v vs ih =>
    intro ds
    cases ds with
    | nil => simp [xnpvFrom]
    | cons d ds => simp only [List.map_cons, xnpvFrom, ih]; ring

/-- **XNPV is linear in the cash flows, for any weights**: additive for two value ranges on the
    same dates and homogeneous. -/
theorem xnpv_linear (w : ℚ → ℚ → ℚ) (r : ℚ) (hr : -1 < r) (vs us ds : List ℚ)
    (h1 : vs.length = ds.length) (h2 : us.length = ds.length) (a : ℚ) :
    XNPV w r (List.zipWith (· + ·) vs us) ds = .ok (xnpv (w (1 + r)) vs ds + xnpv (w (1 + r)) us ds) ∧
    XNPV w r (vs.map (a * ·)) ds = .ok (a * xnpv (w (1 + r)) vs ds) := by
  have hz : (List.zipWith (· + ·) vs us).length = ds.length := by simp [h1, h2]
  have hm : (vs.map (a * ·)).length = ds.length := by simpa using h1
  rw [xnpv_def w r _ ds hz hr, xnpv_def w r _ ds hm hr]
  unfold xnpv
  cases ds with
  | nil => simp
  | cons d ds =>
    constructor
    · simp only [xnpvFrom_add _ _ vs us _ (h1.trans h2.symm)]
    · simp only [xnpvFrom_smul]

example (w : ℚ → ℚ → ℚ) : XNPV w (1 / 10) ([-100, 110].map (2 * ·)) [43831, 44196]
    = .ok (2 * xnpv (w (1 + 1 / 10)) [-100, 110] [43831, 44196]) :=
  (xnpv_linear w (1 / 10) (by norm_num) [-100, 110] [0, 0] [43831, 44196] rfl rfl 2).2

/-! ### IRR / XIRR: what the model says, and the root certificate -/

/-- IRR returns the solver's output; XIRR hands the solver the non-zero flows in date order,
    returns its output when the acceptance test passes and #NUM! otherwise. -/
theorem irr_is_solver_output (solve : List ℚ → Option ℚ) (cs : List ℚ) (r : ℚ)
    (h : solve cs = some r) : IRR solve cs = .ok r := by simp [IRR, h]

theorem xirr_is_solver_output (w : ℚ → ℚ → ℚ) (solve : (ℚ → Res) → ℚ → Option ℚ)
    (vs ds : List ℚ) (g : ℚ) (hlen : vs.length = ds.length) :
    XIRR w solve vs ds g = .err .num ∨
    ∃ r, XIRR w solve vs ds g = .ok r ∧
      solve (fun x => _xnpv w x ((xirrSeries vs ds).map (·.1)) ((xirrSeries vs ds).map (·.2))) g = some r := by
  have h1 : ¬ (vs.length ≠ ds.length) := by simpa using hlen
  simp only [XIRR, h1, if_false]
  split
  · exact Or.inl rfl
  · rename_i rate hs
    split
    · exact Or.inr ⟨rate, rfl, hs⟩
    · exact Or.inl rfl

/-- for rates > −1 Excel's NPV (first flow discounted once) is the discounted sum from period 0
    divided by `1+r`: same sign, same roots -/
theorem npv_eq_pvSum_div (r : ℚ) (hr : -1 < r) (cs : List ℚ) : npv r cs = pvSum r cs / (1 + r) := by
  have h := pvFromK_succ (K := ℚ) (r := r) (by linarith) cs 0
  simpa [pvFromK_rat, npv, pvSum] using h

/-- **irr_unique, strict monotonicity** — over any linearly ordered field `K` (ℚ, ℝ, …): for an
    initial outlay `c0 < 0` followed by non-negative returns `cs` with positive total,
    `r ↦ Σ cᵢ/(1+r)^i` is strictly decreasing on (−1, ∞). -/
theorem irr_strictAnti {K : Type*} [Field K] [LinearOrder K] [IsStrictOrderedRing K]
    (c0 : K) (cs : List K) (hc0 : c0 < 0) (hnn : ∀ c ∈ cs, 0 ≤ c) (hsum : 0 < c0 + cs.sum)
    (r s : K) (hr : -1 < r) (hrs : r < s) :
    pvFromK s 0 (c0 :: cs) < pvFromK r 0 (c0 :: cs) := by
  have hpos : ∃ c ∈ cs, 0 < c := exists_pos_of_sum_pos cs hnn (by linarith)
  have := pvFromK_strictAnti hr hrs cs hnn hpos 1 (by omega)
  simp only [pvFromK, pow_zero, div_one]
  linarith

/-- **irr_unique** — hence it has at most one root there (in any ordered field). -/
theorem irr_unique {K : Type*} [Field K] [LinearOrder K] [IsStrictOrderedRing K]
    (c0 : K) (cs : List K) (hc0 : c0 < 0) (hnn : ∀ c ∈ cs, 0 ≤ c) (hsum : 0 < c0 + cs.sum)
    (r s : K) (hr : -1 < r) (hs : -1 < s)
    (h1 : pvFromK r 0 (c0 :: cs) = 0) (h2 : pvFromK s 0 (c0 :: cs) = 0) : r = s := by
  rcases lt_trichotomy r s with h | h | h
  · have := irr_strictAnti c0 cs hc0 hnn hsum r s hr h; linarith
  · exact h
  · have := irr_strictAnti c0 cs hc0 hnn hsum s r hs h; linarith

/-- the same over ℚ for the reference function `Spec.C20.pvSum` -/
theorem irr_unique_rat (cs : List ℚ) (hdom : OutlayThenReturns cs) (r s : ℚ) (hr : -1 < r) (hs : -1 < s)
    (h1 : pvSum r cs = 0) (h2 : pvSum s cs = 0) : r = s := by
  cases cs with
  | nil => exact absurd hdom (by simp [OutlayThenReturns])
  | cons c0 cs =>
    obtain ⟨hc0, hnn, hsum⟩ := hdom
    exact irr_unique c0 cs hc0 hnn hsum r s hr hs (by rw [pvFromK_rat]; exact h1)
      (by rw [pvFromK_rat]; exact h2)

/-- **the certificate the harness asks for**: if Excel's NPV of the flows, evaluated exactly in ℚ, is
    positive at `a` and negative at `b` (`−1 < a`, `−1 < b`), then *every* root `ρ > −1` of the
    discounted sum — in any ordered field containing ℚ, e.g. the real internal rate of return — lies
    strictly between `a` and `b`.  With `a = r − 10⁻⁶`, `b = r + 10⁻⁶` the returned rate `r` is within
    10⁻⁶ of the unique root. -/
theorem irr_certificate {K : Type*} [Field K] [LinearOrder K] [IsStrictOrderedRing K]
    (cs : List ℚ) (hdom : OutlayThenReturns cs) (a b : ℚ) (ha : -1 < a) (hb : -1 < b)
    (hlo : 0 < npv a cs) (hhi : npv b cs < 0)
    (ρ : K) (hρ : -1 < ρ) (hroot : pvFromK ρ 0 (cs.map fun c : ℚ => (c : K)) = 0) :
    (a : K) < ρ ∧ ρ < (b : K) := by
  cases cs with
  | nil => exact absurd hdom (by simp [OutlayThenReturns])
  | cons c0 cs =>
    obtain ⟨hc0, hnn, hsum⟩ := hdom
    -- signs of the discounted sum from period 0 at a and b, in ℚ and then in K
    have ha1 : (0 : ℚ) < 1 + a := by linarith
    have hb1 : (0 : ℚ) < 1 + b := by linarith
    rw [npv_eq_pvSum_div a ha] at hlo
    rw [npv_eq_pvSum_div b hb] at hhi
    have hlo' : 0 < pvSum a (c0 :: cs) := by
      rcases lt_trichotomy 0 (pvSum a (c0 :: cs)) with h | h | h
      · exact h
      · rw [← h] at hlo; simp at hlo
      · exact absurd (div_neg_of_neg_of_pos h ha1) (not_lt.mpr hlo.le)
    have hhi' : pvSum b (c0 :: cs) < 0 := by
      rcases lt_trichotomy 0 (pvSum b (c0 :: cs)) with h | h | h
      · exact absurd (div_pos h hb1) (not_lt.mpr hhi.le)
      · rw [← h] at hhi; simp at hhi
      · exact h
    have hloK : (0 : K) < pvFromK (a : K) 0 ((c0 :: cs).map fun c : ℚ => (c : K)) := by
      rw [pvFromK_cast]; exact_mod_cast hlo'
    have hhiK : pvFromK (b : K) 0 ((c0 :: cs).map fun c : ℚ => (c : K)) < 0 := by
      rw [pvFromK_cast]; exact_mod_cast hhi'
    -- the hypotheses of strict monotonicity, cast into K
    have hc0K : ((c0 : ℚ) : K) < 0 := by exact_mod_cast hc0
    have hnnK : ∀ c ∈ cs.map (fun c : ℚ => (c : K)), 0 ≤ c := by
      intro c hc
      obtain ⟨q, hq, rfl⟩ := List.mem_map.mp hc
      exact_mod_cast hnn q hq
    have hsumK : (0 : K) < (c0 : K) + (cs.map fun c : ℚ => (c : K)).sum := by
      rw [sum_map_cast]; exact_mod_cast hsum
    have haK : (-1 : K) < (a : K) := by exact_mod_cast ha
    have hbK : (-1 : K) < (b : K) := by exact_mod_cast hb
    simp only [List.map_cons] at hroot hloK hhiK
    constructor
    · by_contra hcon
      have hle : ρ ≤ (a : K) := not_lt.mp hcon
      rcases eq_or_lt_of_le hle with h | h
      · rw [h] at hroot; linarith
      · have := irr_strictAnti (c0 : K) _ hc0K hnnK hsumK ρ a hρ h; linarith
    · by_contra hcon
      have hle : (b : K) ≤ ρ := not_lt.mp hcon
      rcases eq_or_lt_of_le hle with h | h
      · rw [← h] at hroot; linarith
      · have := irr_strictAnti (c0 : K) _ hc0K hnnK hsumK b ρ hbK h; linarith

/-- the hypotheses are satisfiable: −100, 0, 121 has the root 0.1, enclosed by 0.09 and 0.11 -/
example : OutlayThenReturns [-100, 0, 121] ∧ 0 < npv (9 / 100) [-100, 0, 121] ∧
    npv (11 / 100) [-100, 0, 121] < 0 ∧ pvSum (1 / 10) [-100, 0, 121] = 0 := by
  refine ⟨⟨by norm_num, ?_, by norm_num⟩, ?_, ?_, ?_⟩
  · intro c hc; simp at hc; rcases hc with rfl | rfl <;> norm_num
  all_goals norm_num [npv, pvSum, pvFrom]

/-! ### XIRR: the same for the date-weighted sum, for any power function with the order properties -/

/-- the flows and dates the XIRR clause speaks about, over a field: an outlay on the first date,
    non-negative returns on strictly later dates, positive total -/
def XOutlayThenReturns {K : Type*} [Field K] [LinearOrder K] (v0 : K) (vs : List K) (d0 : K) (ds : List K) : Prop :=
  v0 < 0 ∧ (∀ v ∈ vs, 0 ≤ v) ∧ 0 < v0 + vs.sum ∧ vs.length = ds.length ∧ ∀ d ∈ ds, d0 < d

/-- **xirr_unique, strict monotonicity** — for any power function `pw` with `b⁰ = 1`, `bᵗ > 0` and
    `b ↦ bᵗ` strictly increasing for `t > 0` (`IsPow`), `r ↦ Σ vᵢ / pw (1+r) ((dᵢ−d₁)/365)` is strictly
    decreasing on (−1, ∞) for an outlay followed by non-negative returns with positive total. -/
theorem xirr_strictAnti {K : Type*} [Field K] [LinearOrder K] [IsStrictOrderedRing K]
    (pw : K → K → K) (hpw : IsPow pw) (v0 : K) (vs : List K) (d0 : K) (ds : List K)
    (hdom : XOutlayThenReturns v0 vs d0 ds) (r s : K) (hr : -1 < r) (hrs : r < s) :
    xnpvFromK (pw (1 + s)) d0 (v0 :: vs) (d0 :: ds) < xnpvFromK (pw (1 + r)) d0 (v0 :: vs) (d0 :: ds) := by
  obtain ⟨hv0, hnn, hsum, hlen, hd⟩ := hdom
  have hp := exists_pos_zip d0 vs ds hlen hnn hd (by linarith)
  have := xnpvFromK_strictAnti hpw hr hrs d0 vs ds hnn (fun d h => (hd d h).le) hp
  simp only [xnpvFromK, sub_self, zero_div]
  rw [hpw.zero (1 + s) (by linarith), hpw.zero (1 + r) (by linarith)]
  linarith

/-- **the XIRR certificate**: opposite signs of the date-weighted sum at `a < b` enclose every root. -/
theorem xirr_certificate {K : Type*} [Field K] [LinearOrder K] [IsStrictOrderedRing K]
    (pw : K → K → K) (hpw : IsPow pw) (v0 : K) (vs : List K) (d0 : K) (ds : List K)
    (hdom : XOutlayThenReturns v0 vs d0 ds) (a b ρ : K) (hb : -1 < b) (hρ : -1 < ρ)
    (hlo : 0 < xnpvFromK (pw (1 + a)) d0 (v0 :: vs) (d0 :: ds))
    (hhi : xnpvFromK (pw (1 + b)) d0 (v0 :: vs) (d0 :: ds) < 0)
    (hroot : xnpvFromK (pw (1 + ρ)) d0 (v0 :: vs) (d0 :: ds) = 0) : a < ρ ∧ ρ < b := by
  constructor
  · by_contra hcon
    rcases eq_or_lt_of_le (not_lt.mp hcon) with h | h
    · rw [h] at hroot; linarith
    · have := xirr_strictAnti pw hpw v0 vs d0 ds hdom ρ a hρ h; linarith
  · by_contra hcon
    rcases eq_or_lt_of_le (not_lt.mp hcon) with h | h
    · rw [← h] at hroot; linarith
    · have := xirr_strictAnti pw hpw v0 vs d0 ds hdom b ρ hb h; linarith

/-- over ℚ the generic sum is the reference `Spec.C20.xnpv` -/
theorem xnpv_eq_generic (W : ℚ → ℚ) (v0 : ℚ) (vs : List ℚ) (d0 : ℚ) (ds : List ℚ) :
    xnpv W (v0 :: vs) (d0 :: ds) = xnpvFromK W d0 (v0 :: vs) (d0 :: ds) := by
  rw [xnpvFromK_rat]; rfl

/-- the hypotheses are satisfiable: `pw b t = b` for `t > 0` and `1` otherwise has the three order
    properties (it is the real power on the exponents 0 and 1); −100 followed by 110 a year later has
    its root at 10 %, enclosed by 9 % and 11 %. -/
example : IsPow (fun b t : ℚ => if t ≤ 0 then 1 else b) ∧
    XOutlayThenReturns (-100 : ℚ) [110] 43831 [44196] ∧
    xnpv ((fun b t : ℚ => if t ≤ 0 then 1 else b) (1 + 1 / 10)) [-100, 110] [43831, 44196] = 0 ∧
    0 < xnpv ((fun b t : ℚ => if t ≤ 0 then 1 else b) (1 + 9 / 100)) [-100, 110] [43831, 44196] ∧
    xnpv ((fun b t : ℚ => if t ≤ 0 then 1 else b) (1 + 11 / 100)) [-100, 110] [43831, 44196] < 0 := by
  refine ⟨⟨fun b hb => by simp, fun b t hb => ?_, fun b b' t hb hbb ht => ?_⟩,
    ⟨by norm_num, ?_, by norm_num, rfl, ?_⟩, ?_, ?_, ?_⟩
  · show 0 < if t ≤ 0 then 1 else b
    split <;> [norm_num; exact hb]
  · show (if t ≤ 0 then 1 else b) < if t ≤ 0 then 1 else b'
    simp only [not_le.mpr ht, if_false]; exact hbb
  · intro v hv; simp at hv; subst hv; norm_num
  · intro d hd; simp at hd; subst hd; norm_num
  all_goals norm_num [xnpv, xnpvFrom]

/-! ### XIRR and the library solver: what holds today (known finding D2002)

GOAL (full strength; *not* a theorem today):

    ∀ flows/dates with `XOutlayThenReturns`, ∃ r, XIRR pw newton vs ds 0.1 = .ok r ∧ |r − root| < 10⁻⁶

`solve` is an uninterpreted parameter, so nothing can be proved about its success, and for the solver
the code uses (scipy's secant iteration started at `guess` and `guess·(1+10⁻⁴)+10⁻⁴`) the goal is false:
for −100 followed by 300 sixty years later (root 1.85 %) the first secant step from the default guess
lands at −1.74 < −1 (first `example` below, exact arithmetic — whole-year offsets make the power
rational), where `_xnpv` is `+inf`; the iteration then stalls and reports its start value 0.10011.
Since the fix a63cb41 the acceptance test rejects that value (second `example`) and XIRR answers #NUM!
instead of 0.10011 (third `example`); the check lists such inputs as known finding D2002.

What is proved (`xirr_partial`): every rate XIRR returns was produced by the solver on the non-zero
flows in date order *and* passed the residual test `|XNPV(r)| ≤ 10⁻⁶ · Σ|vᵢ|/(1+r)^tᵢ`. -/

theorem xirr_partial (w : ℚ → ℚ → ℚ) (solve : (ℚ → Res) → ℚ → Option ℚ)
    (vs ds : List ℚ) (g r : ℚ) (h : XIRR w solve vs ds g = .ok r) :
    vs.length = ds.length ∧
    solve (fun x => _xnpv w x ((xirrSeries vs ds).map (·.1)) ((xirrSeries vs ds).map (·.2))) g = some r ∧
    xirrAccepts w r ((xirrSeries vs ds).map (·.1)) ((xirrSeries vs ds).map (·.2)) = true := by
  unfold XIRR at h
  by_cases hlen : vs.length = ds.length
  · have h1 : ¬ (vs.length ≠ ds.length) := by simpa using hlen
    simp only [h1, if_false] at h
    split at h
    · cases h
    · rename_i rate hs
      split at h
      · rename_i hacc
        cases h
        exact ⟨hlen, hs, hacc⟩
      · cases h
  · simp [hlen] at h

/-- exact power for whole-year offsets (`t` a natural number of years) -/
def yearPow (b t : ℚ) : ℚ := b ^ t.num.toNat

/-- D2002, the mechanism: the first secant step from the default guess leaves (−1, ∞) -/
example :
    let f := fun r : ℚ => xnpv (yearPow (1 + r)) [-100, 300] [40000, 61900]
    let p0 : ℚ := 1 / 10
    let p1 : ℚ := 10011 / 100000
    p1 - f p1 * (p1 - p0) / (f p1 - f p0) ≤ -1 := by
  have h60 : Int.toNat 60 = 60 := rfl
  norm_num [xnpv, xnpvFrom, yearPow, h60]

/-- … the stalled iterate 0.10011 does not pass the acceptance test … -/
example : xirrAccepts yearPow (10011 / 100000) [-100, 300] [40000, 61900] = false := by
  decide +kernel

/-- … so a solver that reports it makes XIRR answer #NUM! (and not 0.10011, as before a63cb41). -/
example : XIRR yearPow (fun _ _ => some (10011 / 100000)) [-100, 300] [40000, 61900] (1 / 10) = .err .num := by
  decide +kernel

/-- non-vacuity of `xirr_partial`: a solver that reports the root 10 % of −100, 110 one year apart is accepted -/
example : XIRR yearPow (fun _ _ => some (1 / 10)) [-100, 0, 110] [43831, 43900, 44196] (1 / 10) = .ok (1 / 10) := by
  decide +kernel

end XlVerif.Props.C20
