/-
  XlVerif.Props.X01 — the integrated pipeline model: composition theorems.

  X01 is not one of the twenty properties.  It is ONE executable model of
      workbook of constants and formula TEXTS  →  compile  →  evaluate a cell
  (`Model/X01.lean`: `compile` = tokenizer + parser + `toFx` + C03's address layer + `build_ranges`;
  `Model/X01Sem.lean`: `libSem`, the whole modelled function library as a `Sem`; evaluation =
  `Model.Evaluator.fresh libSem`), validated against the running code on random workbooks
  (`harness/props/x01.py`), and the theorems below tie the separately built property models together:

    * `evalFx_toFx_operators`, `compile_operator_formula(_ext)`, `compile_operator_formula_denote`:
        on operator formulas the evaluator model instantiated with the library semantics and the AST
        evaluator of C01 agree — for a cell of a compiled workbook holding `render b e`, evaluation through
        the whole pipeline is `Model.C01.evaluateFormula (render b e) env`, hence (`Props.C01.C01`) `denote e env`;
        this composes C02's `parse_render`, `toFx`, `compile` and the operator entries of `libSem`;
    * `compile_transparent`: what `compile` does to a workbook source, cell by cell;
    * `X01_pure`, `X01_history`, `X01_order_independent`, `X01_idempotent`, `X01_terminates`, `X01_cycle_sound`:
        the generic theorems of C04 / C05 / C06 (which hold for every `Sem`) instantiated with `libSem` — every one of
        those guarantees holds for the whole modelled function library (and for the semantics the driver runs,
        `guardOf libSem` and its strict variant);
    * `toFx_total_on_wf`: compiling the parse of a well-formed C02 formula never fails (unknown function names
        become `Fx.fail`), with one `Fx` node per construct (+ the `ValueExpr` defaults of omitted IF branches);
    * `wrapper_refines`: the `validate_args` wrapper of the pipeline is `Model.Validate.validateAll` wherever that
        shared model applies (no `Array` at a scalar parameter, no `XlDateTime` parameter);
    * `toFx_reference`, `toFx_reference_term`: the address `toFx` computes for a reference token is C03's
        `fullAddress`, which is also the term `XLFormula` registers for it.
-/
import XlVerif.Lemmas.X01
import XlVerif.Lemmas.X01Compile
import XlVerif.Lemmas.X01Total
import XlVerif.Lemmas.X01Wrap
import XlVerif.Props.C01
import XlVerif.Props.C04
import XlVerif.Props.C05
import XlVerif.Props.C06
namespace XlVerif.Props.X01
open XlVerif XlVerif.Model.Tokenizer XlVerif.Model.Parser XlVerif.Model.Evaluator XlVerif.Model.Value
open XlVerif.Model.X01 XlVerif.Lemmas.X01 XlVerif.Spec.C02 XlVerif.Lemmas.C02

/-! ## the evaluator model with the library semantics vs. the AST evaluator of C01 -/

/-- **`evalFx_toFx_operators`** (proved in `Lemmas/X01.lean` by induction on the parse tree): for every operator
    tree `a` over a model whose referenced cells are constants, `toFx sheet keys a` evaluated by `Evaluator.evalFx`
    under `libSemOf ext` has the outcome `Model.C01.evalAst` has on `a` (`evalAstE ext`; `evalAstE_ext0`). -/
theorem evalFx_toFx_operators (ext : Ext) (m : MState) (fuel : Nat) (sheet : Text) (keys : List Text)
    (env : Model.C01.Env) (a : Ast) (ha : OpAst m sheet keys env a) (fx : Fx) (hfx : toFx sheet keys a = .ok fx)
    (c : Ctx Unit) (hm : MemoOK m c.memo) :
    ∃ c', evalFx (pureStore m) (libSemOf ext) (evalCell (pureStore m) (libSemOf ext) (fuel + 1)) c fx
            = (c', liftFx (evalAstE ext env a)) ∧ MemoOK m c'.memo :=
  Lemmas.X01.evalFx_toFx_operators ext m fuel sheet keys env a ha fx hfx c hm

theorem evalAstE_is_C01 (env : Model.C01.Env) (a : Ast) :
    evalAstE Model.C01.ext0 env a = Model.C01.evalAst env a := evalAstE_ext0 env a

/-- what `Evaluator.evaluate` makes of an outcome of the AST evaluator, for the cell `a` whose formula text has
    length `len`: a Python exception of an operator is wrapped once ("Problem evaluating cell …") -/
def liftCell (a : Addr) (len : Nat) : OpR → Res
  | .val s => .val (.s s)
  | .nonfinite => .exc .runtime nonfiniteMark
  | .py k => .exc .runtime (35 + a.length + len + crashLen k)

/-- evaluating a formula cell whose compiled tree comes from an operator tree -/
theorem fresh_operator_cell (ext : Ext) (m : MState) (fuel : Nat) (a : Addr) (cell : Model.Evaluator.Cell) (fx : Fx)
    (sheet : Text) (keys : List Text) (env : Model.C01.Env) (ast : Ast)
    (hres : m.resolve a = a) (hcell : m.cell? a = some cell) (hf : cell.formula = some fx)
    (hfx : toFx sheet keys ast = .ok fx) (hop : OpAst m sheet keys env ast) :
    fresh (libSemOf ext) (fuel + 2) m a = liftCell a cell.formulaLen (evalAstE ext env ast) := by
  unfold fresh
  rw [evalCell]
  simp only [pureStore, hres, hcell, hf]
  have hm0 : MemoOK m ([] : List (Addr × V)) := fun _ _ h => by simp [assoc] at h
  obtain ⟨c', hc', _⟩ := Lemmas.X01.evalFx_toFx_operators ext m fuel sheet keys env ast hop fx hfx
    { st := (), evaluating := [a], memo := [], trace := [a] } hm0
  have hce : evalFx (pureStore m) (libSemOf ext) (evalCell (pureStore m) (libSemOf ext) (fuel + 1))
      { st := (), evaluating := [a], memo := [], trace := [a] } fx = (c', liftFx (evalAstE ext env ast)) := hc'
  simp only [pureStore] at hce
  simp only [List.contains_nil, Bool.false_eq_true, if_false, List.nil_append, hce]
  cases evalAstE ext env ast <;> simp [liftFx, liftCell]

/-! ## from the workbook source -/

/-- the numbers the source gives the cells of `sheet` (coordinate ↦ number) -/
def srcEnv (src : Source) (sheet : Text) : Model.C01.Env := fun coord =>
  match srcLookup src.defaultSheet (sheet ++ '!' :: coord) src.cells with
  | some (.const (.num n)) => some n
  | _ => none

/-- the source gives the cell a number, or does not mention it -/
def NumericOrAbsent (src : Source) (sheet : Text) (c : Spec.C02.Cell) : Prop :=
  match srcLookup src.defaultSheet (sheet ++ '!' :: Spec.C01.cellAddr c) src.cells with
  | none => True
  | some (.const (.num _)) => True
  | _ => False

/-- `P` holds for every cell an operator formula refers to -/
def RefsOK (P : Spec.C02.Cell → Prop) : Expr → Prop
  | .ref r => P r.first
  | .neg e => RefsOK P e
  | .bin _ l r => RefsOK P l ∧ RefsOK P r
  | .paren e => RefsOK P e
  | _ => True

theorem rsplitLast_none (sep : Char) : ∀ (s : List Char), s.contains sep = false → Model.C03.rsplitLast sep s = none
  | [], _ => rfl
  | c :: s, h => by
    simp only [List.contains_cons, Bool.or_eq_false_iff] at h
    have hc : ¬ c = sep := by
      intro e; subst e; simp at h
    simp [Model.C03.rsplitLast, rsplitLast_none sep s h.2, hc]

theorem rsplitLast_append (sep : Char) (coord : List Char) (hc : coord.contains sep = false) :
    ∀ (s : List Char), Model.C03.rsplitLast sep (s ++ sep :: coord) = some (s, coord)
  | [] => by simp [Model.C03.rsplitLast, rsplitLast_none sep coord hc]
  | c :: s => by simp [Model.C03.rsplitLast, rsplitLast_append sep coord hc s]

theorem sheetOf_append (sheet coord : List Char) (hc : coord.contains '!' = false) :
    Model.C03.sheetOf (sheet ++ '!' :: coord) = sheet := by
  simp [Model.C03.sheetOf, rsplitLast_append '!' coord hc sheet]

theorem removeChar_eq_stripDollar (v : List Char) : Model.C03.removeChar '$' v = Model.C01.stripDollar v := by
  unfold Model.C03.removeChar Model.C01.stripDollar
  congr 1
  funext c
  cases h : decide (c = '$') <;> simp_all [bne]

theorem contains_filter_false {p : Char → Bool} {x : Char} {l : List Char} (h : l.contains x = false) :
    (l.filter p).contains x = false := by
  rw [Bool.eq_false_iff] at h ⊢
  intro hc
  apply h
  simp only [List.contains_eq_mem, decide_eq_true_eq] at hc ⊢
  exact (List.mem_filter.mp hc).1

/-- the address of a plain reference to the cell `c`, written on `sheet` -/
theorem fullAddress_cell (c : Spec.C02.Cell) (h : c.WF) (sheet : Text) :
    Model.C03.fullAddress c.text sheet = sheet ++ '!' :: Spec.C01.cellAddr c := by
  obtain ⟨hb, _⟩ := Lemmas.C01.cell_no_bang c h
  have hs := Lemmas.C01.stripDollar_cell c h
  have h1 : Model.C03.stripCoordDollar c.text = Spec.C01.cellAddr c := by
    simp [Model.C03.stripCoordDollar, rsplitLast_none '!' c.text hb, removeChar_eq_stripDollar, hs]
  have h2 : (Spec.C01.cellAddr c).contains '!' = false := by
    rw [← hs]; exact contains_filter_false hb
  have h2' : '!' ∉ Spec.C01.cellAddr c := by simpa using h2
  simp [Model.C03.fullAddress, h1, Model.C03.has, h2']

theorem cellAddr_no_colon (c : Spec.C02.Cell) (h : c.WF) : (Spec.C01.cellAddr c).contains ':' = false := by
  rw [← Lemmas.C01.stripDollar_cell c h]
  exact contains_filter_false (Lemmas.C01.cell_no_bang c h).2

/-- the parse tree of a C01 expression is an operator tree over the compiled model, when the cells it refers to
    are numbers of the source (or absent from it) -/
theorem opAst_astOf {src : Source} {m : MState} (hc : compile src = .ok m) (hn : src.names = [])
    (sheet : Text) (hsheet : sheet.contains ':' = false) :
    ∀ (e : Expr), WF e → Spec.C01.inC01 e = true → Lemmas.C01.LitsFinite e → RefsOK (NumericOrAbsent src sheet) e →
      OpAst m sheet (m.ranges.map (·.1)) (srcEnv src sheet) (astOf e) := by
  obtain ⟨hnames, hkeys, hcells⟩ := compile_transparent hc hn
  intro e
  induction e using Expr.ind with
  | num n p =>
    intro hwf _ hfin _
    refine OpAst.operand _ ?_
    cases p with
    | true => simp [astOf, numTok, OperandOK]
    | false =>
      obtain ⟨k, hk, _⟩ := Lemmas.C01.textNumber_lit n hwf.1 hfin
      simp only [astOf, numTok, OperandOK, Bool.false_eq_true, if_false]
      exact ⟨k, hk⟩
  | str s => intro _ hin; simp [Spec.C01.inC01] at hin
  | bool b => intro _ hin; simp [Spec.C01.inC01] at hin
  | err c => intro _ hin; simp [Spec.C01.inC01] at hin
  | ref r =>
    intro hwf hin _ hr
    obtain ⟨sh, first, last⟩ := r
    cases sh <;> cases last <;> simp [Spec.C01.inC01] at hin
    have hwc : first.WF := hwf.2.1
    obtain ⟨hb, hcol⟩ := Lemmas.C01.cell_no_bang first hwc
    have haddr := fullAddress_cell first hwc sheet
    refine OpAst.operand _ ?_
    simp only [astOf, refTok, Ref.denoted, SheetQ.denoted, Ref.coords, List.nil_append, List.append_nil, OperandOK]
    refine ⟨hb, hcol, ?_, ?_, ?_⟩
    · -- not a key of `model.ranges`: every key contains a `:`
      rw [haddr]
      cases hk : (m.ranges.map (·.1)).contains (sheet ++ '!' :: Spec.C01.cellAddr first) with
      | false => rfl
      | true =>
        have hmem : (sheet ++ '!' :: Spec.C01.cellAddr first) ∈ m.ranges.map (·.1) := by
          simpa using hk
        have := hkeys _ hmem
        have hno : Model.C03.has ':' (sheet ++ '!' :: Spec.C01.cellAddr first) = false := by
          have h3 := cellAddr_no_colon first hwc
          simp only [Model.C03.has, List.contains_eq_mem, List.mem_append, List.mem_cons, decide_eq_false_iff_not]
            at hsheet h3 ⊢
          intro h
          rcases h with h | h | h
          · exact hsheet h
          · cases h
          · exact h3 h
        rw [hno] at this
        cases this
    · -- a constant (or absent) cell, reached without a defined name
      rw [haddr]
      refine ⟨by simp [MState.resolve, hnames, assoc], ?_⟩
      intro c hcell
      obtain ⟨k1, k2, k3⟩ := hcells (sheet ++ '!' :: Spec.C01.cellAddr first)
      simp only [RefsOK, NumericOrAbsent] at hr
      cases hl : srcLookup src.defaultSheet (sheet ++ '!' :: Spec.C01.cellAddr first) src.cells with
      | none =>
        rcases k1 hl with h' | ⟨c', h', hf', _⟩
        · rw [h'] at hcell; cases hcell
        · rw [h'] at hcell; cases hcell; exact hf'
      | some cont =>
        rw [hl] at hr
        cases cont with
        | const v =>
          obtain ⟨c', h', hf', _⟩ := k2 v hl
          rw [h'] at hcell; cases hcell; exact hf'
        | formula t => simp at hr
    · -- its value is what the source says
      rw [haddr, Lemmas.C01.stripDollar_cell first hwc]
      obtain ⟨k1, k2, k3⟩ := hcells (sheet ++ '!' :: Spec.C01.cellAddr first)
      simp only [RefsOK, NumericOrAbsent] at hr
      simp only [srcEnv, cellVal]
      cases hl : srcLookup src.defaultSheet (sheet ++ '!' :: Spec.C01.cellAddr first) src.cells with
      | none =>
        rcases k1 hl with h' | ⟨c', h', _, hv'⟩
        · simp [h']
        · simp [h', hv']
      | some cont =>
        rw [hl] at hr
        cases cont with
        | const v =>
          obtain ⟨c', h', _, hv'⟩ := k2 v hl
          cases v <;> simp at hr
          simp [h', hv']
        | formula t => simp at hr
  | neg e ih =>
    intro hwf hin hfin hr
    exact OpAst.unop _ _ ['-'] rfl rfl (by decide) (ih hwf.1 hin hfin hr)
  | bin o l r ihl ihr =>
    intro hwf hin hfin hr
    simp only [Spec.C01.inC01, Bool.and_eq_true] at hin
    refine OpAst.binop _ _ _ o.sym rfl ?_ (ihl hwf.1 hin.1 hfin.1 hr.1) (ihr hwf.2.1 hin.2 hfin.2 hr.2)
    rw [Props.C01.op_func_table.1 o]
    rfl
  | paren e ih => intro hwf hin hfin hr; exact ih hwf hin hfin hr
  | call a f args _ => intro _ hin; simp [Spec.C01.inC01] at hin

/-- **`compile_operator_formula_ext`.**  Let a workbook source without defined names compile to `m`, and let the
    cell `sheet!coord` hold the text `render b e` of a well-formed operator formula `e` (C01's grammar, any
    placement of blanks) that refers to cells of its sheet which the source gives a number or does not mention.
    Then evaluating that cell through the pipeline — `compile`, then `Evaluator.fresh` with the library
    semantics — is the AST evaluator of C01 on the expected parse tree, for every library behaviour `ext`. -/
theorem compile_operator_formula_ext (ext : Ext) (e : Expr) (b : Blanks) (hwf : WF e) (hin : Spec.C01.inC01 e = true)
    (hfin : Lemmas.C01.LitsFinite e) (src : Source) (m : MState) (hc : compile src = .ok m) (hn : src.names = [])
    (sheet coord : Text) (hsheet : sheet.contains ':' = false) (hcoord : coord.contains '!' = false)
    (hcell : srcLookup src.defaultSheet (sheet ++ '!' :: coord) src.cells = some (.formula (render b e)))
    (hrefs : RefsOK (NumericOrAbsent src sheet) e) (fuel : Nat) :
    fresh (libSemOf ext) (fuel + 2) m (sheet ++ '!' :: coord)
      = liftCell (sheet ++ '!' :: coord) (render b e).length (evalAstE ext (srcEnv src sheet) (astOf e)) := by
  obtain ⟨hnames, _, hcells⟩ := compile_transparent hc hn
  obtain ⟨ast, fx, c, hparse, htofx, hmc, hcf, hlen⟩ := (hcells (sheet ++ '!' :: coord)).2.2 _ hcell
  rw [Props.C02.parse_render e hwf b] at hparse
  cases hparse
  rw [sheetOf_append sheet coord hcoord] at htofx
  have hop := opAst_astOf hc hn sheet hsheet e hwf hin hfin hrefs
  have hres : m.resolve (sheet ++ '!' :: coord) = sheet ++ '!' :: coord := by
    simp [MState.resolve, hnames, assoc]
  rw [fresh_operator_cell ext m fuel _ c fx sheet _ (srcEnv src sheet) (astOf e) hres hmc hcf htofx hop, hlen]

/-- **`compile_operator_formula`.**  … with the library behaviour of C01's driver, evaluation through the
    pipeline IS `Model.C01.evaluateFormula` of the text. -/
theorem compile_operator_formula (e : Expr) (b : Blanks) (hwf : WF e) (hin : Spec.C01.inC01 e = true)
    (hfin : Lemmas.C01.LitsFinite e) (src : Source) (m : MState) (hc : compile src = .ok m) (hn : src.names = [])
    (sheet coord : Text) (hsheet : sheet.contains ':' = false) (hcoord : coord.contains '!' = false)
    (hcell : srcLookup src.defaultSheet (sheet ++ '!' :: coord) src.cells = some (.formula (render b e)))
    (hrefs : RefsOK (NumericOrAbsent src sheet) e) (fuel : Nat) :
    fresh (libSemOf Model.C01.ext0) (fuel + 2) m (sheet ++ '!' :: coord)
      = liftCell (sheet ++ '!' :: coord) (render b e).length
          (Model.C01.evaluateFormula (render b e) (srcEnv src sheet)) := by
  rw [compile_operator_formula_ext Model.C01.ext0 e b hwf hin hfin src m hc hn sheet coord hsheet hcoord hcell hrefs fuel,
    evalAstE_ext0, Props.C01.evaluate_render e hwf b]

/-- … and for `libSem` itself (the library behaviour `x01Ext`: `str(float)` of short decimals, `str(datetime)` of
    whole days): the same AST evaluator with that behaviour -/
theorem compile_operator_formula_libSem (e : Expr) (b : Blanks) (hwf : WF e) (hin : Spec.C01.inC01 e = true)
    (hfin : Lemmas.C01.LitsFinite e) (src : Source) (m : MState) (hc : compile src = .ok m) (hn : src.names = [])
    (sheet coord : Text) (hsheet : sheet.contains ':' = false) (hcoord : coord.contains '!' = false)
    (hcell : srcLookup src.defaultSheet (sheet ++ '!' :: coord) src.cells = some (.formula (render b e)))
    (hrefs : RefsOK (NumericOrAbsent src sheet) e) (fuel : Nat) :
    fresh libSem (fuel + 2) m (sheet ++ '!' :: coord)
      = liftCell (sheet ++ '!' :: coord) (render b e).length (evalAstE x01Ext (srcEnv src sheet) (astOf e)) :=
  compile_operator_formula_ext x01Ext e b hwf hin hfin src m hc hn sheet coord hsheet hcoord hcell hrefs fuel

/-- … and hence (`Props.C01.C01`) the value of the expression under Excel's grammar -/
theorem compile_operator_formula_denote (e : Expr) (b : Blanks) (hwf : WF e) (hin : Spec.C01.inC01 e = true)
    (hfin : Lemmas.C01.LitsFinite e) (src : Source) (m : MState) (hc : compile src = .ok m) (hn : src.names = [])
    (sheet coord : Text) (hsheet : sheet.contains ':' = false) (hcoord : coord.contains '!' = false)
    (hcell : srcLookup src.defaultSheet (sheet ++ '!' :: coord) src.cells = some (.formula (render b e)))
    (hrefs : RefsOK (NumericOrAbsent src sheet) e) (fuel : Nat)
    (s : Spec.C01.Env) (henv : Lemmas.C01.EnvOK (srcEnv src sheet) s) (hu : Spec.C01.denote s e ≠ .undef) :
    ∃ o, fresh (libSemOf Model.C01.ext0) (fuel + 2) m (sheet ++ '!' :: coord)
           = liftCell (sheet ++ '!' :: coord) (render b e).length o ∧
         Lemmas.C01.Agree o (Spec.C01.denote s e) :=
  ⟨_, compile_operator_formula e b hwf hin hfin src m hc hn sheet coord hsheet hcoord hcell hrefs fuel,
    Props.C01.C01 e b _ s henv hwf hin hfin hu⟩

/-- `compile` is transparent (`Lemmas/X01Compile.lean`) -/
theorem compile_transparent {src : Source} {m : MState} (h : compile src = .ok m) (hn : src.names = []) :
    m.names = [] ∧
    (∀ key, key ∈ m.ranges.map (·.1) → Model.C03.has ':' key = true) ∧
    ∀ k,
      (srcLookup src.defaultSheet k src.cells = none →
        m.cell? k = none ∨ ∃ c, m.cell? k = some c ∧ c.formula = none ∧ c.value = .s .blank) ∧
      (∀ v, srcLookup src.defaultSheet k src.cells = some (.const v) →
        ∃ c, m.cell? k = some c ∧ c.formula = none ∧ c.value = .s v) ∧
      (∀ text, srcLookup src.defaultSheet k src.cells = some (.formula text) →
        ∃ ast fx c, parse [] text = .ok ast ∧ toFx (Model.C03.sheetOf k) (m.ranges.map (·.1)) ast = .ok fx ∧
          m.cell? k = some c ∧ c.formula = some fx ∧ c.formulaLen = text.length) :=
  Lemmas.X01.compile_transparent h hn

/-! ## the generic theorems of C04 / C05 / C06, for the whole modelled library -/

/-- `Evaluator.evaluate` on a compiled workbook returns the value of a freshly compiled one with the same inputs and
    changes nothing but stored results (C04 `evalCell_pure`) -/
theorem X01_pure (fuel : Nat) (m : MState) (a : Addr) :
    erase (evaluate libSem fuel m a).1 = erase m ∧ (evaluate libSem fuel m a).2.1 = fresh libSem fuel (erase m) a :=
  Props.C04.evalCell_pure libSem fuel m a

/-- after any history of `set_cell_value` / `evaluate`, `evaluate` returns the reference value of the current inputs,
    and the value read back is the value returned (C04) -/
theorem X01_history (fuel : Nat) (m0 : MState) (pre : List Model.C04.Op) (a : Addr) :
    (evaluate libSem fuel (Model.C04.run libSem fuel m0 pre).1 a).2.1
        = Spec.C04.value Gen.maxEmpty libSem fuel (Model.C04.inputsAfter m0 pre) a
    ∧ (∀ v, ((Model.C04.run libSem fuel m0 pre).1.cell? ((Model.C04.run libSem fuel m0 pre).1.resolve a)).isSome →
          (evaluate libSem fuel (Model.C04.run libSem fuel m0 pre).1 a).2.1 = .val v →
          (evaluate libSem fuel (Model.C04.run libSem fuel m0 pre).1 a).1.getCellValue a = v) :=
  Props.C04.C04 libSem fuel m0 pre a

/-- whatever was evaluated before, by however many evaluators sharing the model, in whatever order (C05) -/
theorem X01_order_independent (fuel : Nat) (m : MState) (k1 k2 : Nat) (s1 s2 : List (Nat × Addr)) (e1 e2 : Nat)
    (a : Addr) :
    (Model.C04.Sys.evaluate libSem fuel (Model.C04.Sys.runSched libSem fuel (Model.C04.Sys.init m k1) s1).1 e1 a).2
        = Spec.C04.value Gen.maxEmpty libSem fuel m a
    ∧ (Model.C04.Sys.evaluate libSem fuel (Model.C04.Sys.runSched libSem fuel (Model.C04.Sys.init m k2) s2).1 e2 a).2
        = (Model.C04.Sys.evaluate libSem fuel (Model.C04.Sys.runSched libSem fuel (Model.C04.Sys.init m k1) s1).1 e1 a).2 :=
  Props.C05.order_independent libSem fuel m k1 k2 s1 s2 e1 e2 a

/-- a second `evaluate` returns the same result and leaves the model as the first left it (C05) -/
theorem X01_idempotent (fuel : Nat) (m : MState) (a : Addr) :
    (evaluate libSem fuel (evaluate libSem fuel m a).1 a).2.1 = (evaluate libSem fuel m a).2.1
    ∧ (evaluate libSem fuel (evaluate libSem fuel m a).1 a).1 = (evaluate libSem fuel m a).1 :=
  Props.C05.idempotent libSem fuel m a

/-- with a recursion budget above the number of formula cells the outcome is never RecursionError (C06) -/
theorem X01_terminates (m : MState) (a : Addr) (fuel : Nat) (h : formulaCount m < fuel) :
    ∀ n, Props.C06.outcome libSem fuel m a ≠ .exc .recursion n :=
  Props.C06.terminates libSem m a fuel h

/-- no cycle is reported below an acyclic dependency graph (C06) -/
theorem X01_cycle_sound (m : MState) (a : Addr) (fuel : Nat)
    (h : Spec.C06.AcyclicBelow (Model.C06.deps m) (m.resolve a)) :
    ∀ n, Props.C06.outcome libSem fuel m a ≠ .exc .cycle n :=
  Props.C06.cycle_sound libSem m a fuel h

/-- the same for the semantics the driver runs (`guardOf libSem`: `^` outside the model answers the sentinel;
    `strictOf`: the exactness probe) — purity of evaluation does not depend on what the functions compute -/
theorem X01_pure_driver (fuel : Nat) (m : MState) (a : Addr) :
    (evaluate (guardOf libSem) fuel m a).2.1 = fresh (guardOf libSem) fuel (erase m) a ∧
    (evaluate (strictOf (guardOf libSem)) fuel m a).2.1 = fresh (strictOf (guardOf libSem)) fuel (erase m) a :=
  ⟨(Props.C04.evalCell_pure _ fuel m a).2, (Props.C04.evalCell_pure _ fuel m a).2⟩

/-! ## `toFx` is total on well-formed formulas -/

/-- **`toFx_total_on_wf`.**  For every well-formed formula of C02's grammar (literals, references with sheets and
    ranges, operators, parentheses, calls of ANY name, nested at will) whose numeric literals are finite doubles:
    `toFx` of its parse tree succeeds, with exactly one `Fx` node per node of the tree — plus one literal per omitted
    IF branch.  A call of an unknown function does not fail: it compiles to `Fx.fail` (`callFx_unknown`). -/
theorem toFx_total_on_wf (sheet : Text) (keys : List Text) (e : Expr) (hwf : WF e) (hl : LitsOK e) :
    ∃ fx, toFx sheet keys (astOf e) = .ok fx ∧ fxNodes fx = astNodes (astOf e) + omitted (astOf e) := by
  obtain ⟨fx, hfx⟩ := toFx_astOf_ok Props.C01.op_func_table sheet keys e hwf hl
  exact ⟨fx, hfx, toFx_nodes sheet keys _ fx hfx⟩

/-- through the text: the parse of any rendering compiles -/
theorem compile_text_total (sheet : Text) (keys : List Text) (e : Expr) (b : Blanks) (hwf : WF e) (hl : LitsOK e) :
    ∃ ast fx, parse [] (render b e) = .ok ast ∧ toFx sheet keys ast = .ok fx := by
  obtain ⟨fx, hfx, _⟩ := toFx_total_on_wf sheet keys e hwf hl
  exact ⟨astOf e, fx, Props.C02.parse_render e hwf b, hfx⟩

theorem callFx_unknown (tv : Text) (args : List Fx) (h : funcIndex (callName tv) = none) :
    callFx tv args = .fail (keyErrorLen (callName tv)) args := Lemmas.X01.callFx_unknown tv args h

/-! ## the wrapper -/

/-- step 1 of `validate_args` as the pipeline runs it (`validateAllX`: + `Number.cast(Array)` → #VALUE!, + `DateTime.cast`)
    is the shared model `Model.Validate.validateAll` whenever no parameter is an `XlDateTime` and no argument is an
    `Array` bound to a single parameter — up to "outside the model" for a non-finite number -/
theorem wrapper_refines (ext : Ext) (ps : List Gen.Param) (as : List Model.Validate.PArg)
    (hp : ∀ p ∈ ps, notDateTime p.annot = true) (ha : ∀ a ∈ as, notArrayArg a = true) :
    validateAllX ext ps as = .unsup ∨ validateAllX ext ps as = XR.ofR (Model.Validate.validateAll ext ps as) :=
  validateAllX_refines ext ps as hp ha

/-! ## reference compilation is C03's -/

/-- the address `toFx` computes for a reference token is `Model.C03.fullAddress` (`RangeNode.full_address`: `$`
    stripped from the coordinate part, the own sheet prefixed); it becomes `Fx.rng` exactly when it is a key of the
    built ranges -/
theorem toFx_reference (sheet : Text) (keys : List Text) (v : Text) (ty : TType) :
    toFx sheet keys (.operand ⟨.s v, ty, .range⟩) =
      .ok (if keys.contains (Model.C03.fullAddress v sheet) then .rng (Model.C03.fullAddress v sheet)
           else .ref (Model.C03.fullAddress v sheet)) := rfl

/-- … and it is the term `XLFormula.__post_init__` registers for the same token (what `build_ranges` keys the
    ranges by): evaluation and range construction agree on the address -/
theorem toFx_reference_term (sheet : Text) (v : Text) :
    Model.C03.termsLoop sheet [v] [] = [Model.C03.fullAddress v sheet] := by
  simp [Model.C03.termsLoop, Model.C03.fullAddress]

/-- the `$` markers of a coordinate do not matter (C03 `dollar_irrelevant`, here for plain cells) -/
theorem toFx_reference_dollar (sheet : Text) (c : Spec.C02.Cell) (h : c.WF) :
    Model.C03.fullAddress c.text sheet = sheet ++ '!' :: Spec.C01.cellAddr c := fullAddress_cell c h sheet

/-! ## non-vacuity: whole workbooks through the whole pipeline, in the kernel -/

/-- `A1 = 2`, `B1 = =A1*3`, `C1 = =SUM(A1:B1)&"x"` -/
def wb3 : Source :=
  { cells := [("Sheet1!A1".toList, .const (.num (.int 2))),
              ("Sheet1!B1".toList, .formula "=A1*3".toList),
              ("Sheet1!C1".toList, .formula "=SUM(A1:B1)&\"x\"".toList)] }

def evalSrc (src : Source) (a : String) : Option Res :=
  match compile src with
  | .ok m => some (fresh libSem 50 m a.toList)
  | .error _ => none

example : evalSrc wb3 "Sheet1!B1" = some (.val (.s (.num (.int 6)))) := by decide +kernel
example : evalSrc wb3 "Sheet1!C1" = some (.val (.s (.text "8x".toList))) := by decide +kernel

/-- two sheets (one quoted), `$` spellings, a cross-sheet range, IF / AND laziness, a defined name, a text
    function, a date function, an error value and its test, rounding, base conversion -/
def wb9 : Source :=
  { cells := [("A1".toList, .const (.num (.int 7))),
              ("My Sheet!A1".toList, .const (.num (.flt (5 / 2)))),
              ("My Sheet!A2".toList, .const (.text "ab".toList)),
              ("Sheet1!B1".toList, .formula "=SUM('My Sheet'!$A$1:A2, A1, rate)".toList),
              ("Sheet1!B2".toList, .formula "=IF(AND(A1>5, ISTEXT('My Sheet'!A2)), UPPER('My Sheet'!A2)&LEN(B1), 1/0)".toList),
              ("Sheet1!B3".toList, .formula "=YEAR(DATE(2020,2,30))&\"-\"&DEC2BIN(5,4)&\"-\"&ROUND(2.5,0)".toList),
              ("Sheet1!B4".toList, .formula "=ISERROR(1/0)=NOT(FALSE)".toList),
              ("Sheet1!B5".toList, .formula "=NOSUCH(1)".toList),
              ("Sheet1!B6".toList, .formula "=B6+1".toList)],
    names := [("rate".toList, "'My Sheet'!$A$1".toList)] }

example : evalSrc wb9 "Sheet1!B1" = some (.val (.s (.num (.flt 12)))) := by decide +kernel
example : evalSrc wb9 "Sheet1!B2" = some (.val (.s (.text "AB4".toList))) := by decide +kernel
example : evalSrc wb9 "Sheet1!B3" = some (.val (.s (.text "2020-0101-3.0".toList))) := by decide +kernel
example : evalSrc wb9 "rate" = some (.val (.s (.num (.flt (5 / 2))))) := by decide +kernel
/-- an unknown function: "Problem evaluating cell Sheet1!B5 formula =NOSUCH(1): KeyError('NOSUCH')" (72 characters) -/
example : evalSrc wb9 "Sheet1!B5" = some (.exc .runtime 72) := by decide +kernel
/-- a cycle: "Cycle detected for Sheet1!B6:\n- Sheet1!B6" -/
example : evalSrc wb9 "Sheet1!B6" = some (.exc .cycle 41) := by decide +kernel

/-- the hypotheses of `compile_operator_formula` are satisfiable: `=A1*3` in `wb3` -/
def exprB1 : Expr := .bin .mul (.ref { first := { col := ['A'], row := [1] } }) (.num { ip := [3] } false)

example : render Blanks.none exprB1 = "=A1*3".toList := by decide
example : WF exprB1 ∧ Spec.C01.inC01 exprB1 = true ∧ RefsOK (NumericOrAbsent wb3 "Sheet1".toList) exprB1 := by
  refine ⟨?_, by decide, ?_⟩
  · simp [exprB1, WF, Ref.WF, SheetQ.WF, Cell.WF, NumLit.WF, AllDigits, Expr.level, BinOp.prec]
  · have h : srcLookup wb3.defaultSheet ("Sheet1".toList ++ '!' :: Spec.C01.cellAddr { col := ['A'], row := [1] }) wb3.cells
        = some (.const (.num (.int 2))) := by decide +kernel
    refine ⟨?_, trivial⟩
    show NumericOrAbsent wb3 "Sheet1".toList { col := ['A'], row := [1] }
    unfold NumericOrAbsent
    rw [h]
    trivial
example : srcLookup wb3.defaultSheet ("Sheet1".toList ++ '!' :: "B1".toList) wb3.cells
    = some (.formula (render Blanks.none exprB1)) := by decide +kernel
example : (compile wb3).toOption.isSome = true := by decide +kernel

end XlVerif.Props.X01
