/-
  XlVerif.Props.X01 — the integrated pipeline model: composition theorems.

  X01 is not one of the twenty properties.  It is ONE executable model of
      workbook of constants and formula TEXTS  →  compile  →  evaluate a cell
  (`Model/X01.lean`: `compile` = tokenizer + parser + `toFx` + C03's address layer + `build_ranges`;
  `Model/X01Sem.lean`: `libSem`, the whole modelled function library as a `Sem`; evaluation =
  `Model.Evaluator.fresh libSem`), validated against the running code on random workbooks
  (`harness/props/x01.py`), and the theorems below tie the separately built property models together:

    * `evalFx_toFx_operators`, `compile_operator_formula(_ext)`, `compile_operator_formula_denote`:
        on operator formulas the evaluator model instantiated with the library semantics and the AST
        evaluator of C01 agree — for a cell of a compiled workbook holding `render b e`, evaluation through
        the whole pipeline is `Model.C01.evaluateFormula (render b e) env`, hence (`Props.C01.C01`) `denote e env`;
        this composes C02's `parse_render`, `toFx`, `compile` and the operator entries of `libSem`;
    * `compile_transparent`: what `compile` does to a workbook source, cell by cell;
    * `X01_pure`, `X01_history`, `X01_order_independent`, `X01_idempotent`, `X01_terminates`, `X01_cycle_sound`:
        the generic theorems of C04 / C05 / C06 (which hold for every `Sem`) instantiated with `libSem` — every one of
        those guarantees holds for the whole modelled function library (and for the semantics the driver runs,
        `guardOf libSem` and its strict variant);
    * `toFx_total_on_wf`: compiling the parse of a well-formed C02 formula never fails (unknown function names
        become `Fx.fail`), with one `Fx` node per construct (+ the `ValueExpr` defaults of omitted IF branches);
    * `wrapper_refines`: the `validate_args` wrapper of the pipeline is `Model.Validate.validateAll` wherever that
        shared model applies (no `Array` at a scalar parameter, no `XlDateTime` parameter);
    * `toFx_reference`, `toFx_reference_term`: the address `toFx` computes for a reference token is C03's
        `fullAddress`, which is also the term `XLFormula` registers for it;
    * TRANSPORT of the library theorems to formula texts (last section): `compile_const_formula_partial` (any
        well-formed formula over constants evaluates — fresh, and after any history — to the context-free value of
        its compiled tree), `compile_call_formula` / `compile_call_formula_partial` (a call over literals, references
        and rectangles evaluates to the library's application to the values of the arguments),
        `compile_nested_formula_partial` with the rules `exprVal_leaf`, `exprVal_call` (nested calls), and the
        corollaries `X01_LEFT`, `X01_ROUND_partial`, `X01_DEC2BIN`, `X01_SUM_range_partial`, `X01_COUNTIF_partial`,
        `X01_VLOOKUP_partial`, `X01_NPV`, `X01_DATE_inverse`, `X01_IF_lazy_partial`, `X01_IF_lazy_tree`, each composing
        the refinement theorem of its property (C17, C16, C19, C14, C15, C20, C18, C10).  `_partial`: rectangles are
        read completely (at most MAX_EMPTY cells, finding D6); ROUND on whole numbers.  All of them: sources without
        defined names.
-/
import XlVerif.Lemmas.X01
import XlVerif.Lemmas.X01Compile
import XlVerif.Lemmas.X01Total
import XlVerif.Lemmas.X01Wrap
import XlVerif.Lemmas.X01Transport
import XlVerif.Lemmas.X01Lib
import XlVerif.Props.C01
import XlVerif.Props.C04
import XlVerif.Props.C05
import XlVerif.Props.C06
import XlVerif.Props.C10
import XlVerif.Props.C14
import XlVerif.Props.C15
import XlVerif.Props.C16
import XlVerif.Props.C17
import XlVerif.Props.C18
import XlVerif.Props.C19
import XlVerif.Props.C20
namespace XlVerif.Props.X01
open XlVerif XlVerif.Model.Tokenizer XlVerif.Model.Parser XlVerif.Model.Evaluator XlVerif.Model.Value
open XlVerif.Model.X01 XlVerif.Lemmas.X01 XlVerif.Spec.C02 XlVerif.Lemmas.C02

/-! ## the evaluator model with the library semantics vs. the AST evaluator of C01 -/

/-- **`evalFx_toFx_operators`** (proved in `Lemmas/X01.lean` by induction on the parse tree): for every operator
    tree `a` over a model whose referenced cells are constants, `toFx sheet keys a` evaluated by `Evaluator.evalFx`
    under `libSemOf ext` has the outcome `Model.C01.evalAst` has on `a` (`evalAstE ext`; `evalAstE_ext0`). -/
theorem evalFx_toFx_operators (ext : Ext) (m : MState) (fuel : Nat) (sheet : Text) (keys : List Text)
    (env : Model.C01.Env) (a : Ast) (ha : OpAst m sheet keys env a) (fx : Fx) (hfx : toFx sheet keys a = .ok fx)
    (c : Ctx Unit) (hm : MemoOK m c.memo) :
    ∃ c', evalFx (pureStore m) (libSemOf ext) (evalCell (pureStore m) (libSemOf ext) (fuel + 1)) c fx
            = (c', liftFx (evalAstE ext env a)) ∧ MemoOK m c'.memo :=
  Lemmas.X01.evalFx_toFx_operators ext m fuel sheet keys env a ha fx hfx c hm

theorem evalAstE_is_C01 (env : Model.C01.Env) (a : Ast) :
    evalAstE Model.C01.ext0 env a = Model.C01.evalAst env a := evalAstE_ext0 env a

/-- what `Evaluator.evaluate` makes of an outcome of the AST evaluator, for the cell `a` whose formula text has
    length `len`: a Python exception of an operator is wrapped once ("Problem evaluating cell …") -/
def liftCell (a : Addr) (len : Nat) : OpR → Res
  | .val s => .val (.s s)
  | .nonfinite => .exc .runtime nonfiniteMark
  | .py k => .exc .runtime (35 + a.length + len + crashLen k)

/-- evaluating a formula cell whose compiled tree comes from an operator tree -/
theorem fresh_operator_cell (ext : Ext) (m : MState) (fuel : Nat) (a : Addr) (cell : Model.Evaluator.Cell) (fx : Fx)
    (sheet : Text) (keys : List Text) (env : Model.C01.Env) (ast : Ast)
    (hres : m.resolve a = a) (hcell : m.cell? a = some cell) (hf : cell.formula = some fx)
    (hfx : toFx sheet keys ast = .ok fx) (hop : OpAst m sheet keys env ast) :
    fresh (libSemOf ext) (fuel + 2) m a = liftCell a cell.formulaLen (evalAstE ext env ast) := by
  unfold fresh
  rw [evalCell]
  simp only [pureStore, hres, hcell, hf]
  have hm0 : MemoOK m ([] : List (Addr × V)) := fun _ _ h => by simp [assoc] at h
  obtain ⟨c', hc', _⟩ := Lemmas.X01.evalFx_toFx_operators ext m fuel sheet keys env ast hop fx hfx
    { st := (), evaluating := [a], memo := [], trace := [a] } hm0
  have hce : evalFx (pureStore m) (libSemOf ext) (evalCell (pureStore m) (libSemOf ext) (fuel + 1))
      { st := (), evaluating := [a], memo := [], trace := [a] } fx = (c', liftFx (evalAstE ext env ast)) := hc'
  simp only [pureStore] at hce
  simp only [List.contains_nil, Bool.false_eq_true, if_false, List.nil_append, hce]
  cases evalAstE ext env ast <;> simp [liftFx, liftCell]

/-! ## from the workbook source -/

/-- the numbers the source gives the cells of `sheet` (coordinate ↦ number) -/
def srcEnv (src : Source) (sheet : Text) : Model.C01.Env := fun coord =>
  match srcLookup src.defaultSheet (sheet ++ '!' :: coord) src.cells with
  | some (.const (.num n)) => some n
  | _ => none

/-- the source gives the cell a number, or does not mention it -/
def NumericOrAbsent (src : Source) (sheet : Text) (c : Spec.C02.Cell) : Prop :=
  match srcLookup src.defaultSheet (sheet ++ '!' :: Spec.C01.cellAddr c) src.cells with
  | none => True
  | some (.const (.num _)) => True
  | _ => False

/-- `P` holds for every cell an operator formula refers to -/
def RefsOK (P : Spec.C02.Cell → Prop) : Expr → Prop
  | .ref r => P r.first
  | .neg e => RefsOK P e
  | .bin _ l r => RefsOK P l ∧ RefsOK P r
  | .paren e => RefsOK P e
  | _ => True

theorem rsplitLast_none (sep : Char) : ∀ (s : List Char), s.contains sep = false → Model.C03.rsplitLast sep s = none
  | [], _ => rfl
  | c :: s, h => by
    simp only [List.contains_cons, Bool.or_eq_false_iff] at h
    have hc : ¬ c = sep := by
      intro e; subst e; simp at h
    simp [Model.C03.rsplitLast, rsplitLast_none sep s h.2, hc]

theorem rsplitLast_append (sep : Char) (coord : List Char) (hc : coord.contains sep = false) :
    ∀ (s : List Char), Model.C03.rsplitLast sep (s ++ sep :: coord) = some (s, coord)
  | [] => by simp [Model.C03.rsplitLast, rsplitLast_none sep coord hc]
  | c :: s => by simp [Model.C03.rsplitLast, rsplitLast_append sep coord hc s]

theorem sheetOf_append (sheet coord : List Char) (hc : coord.contains '!' = false) :
    Model.C03.sheetOf (sheet ++ '!' :: coord) = sheet := by
  simp [Model.C03.sheetOf, rsplitLast_append '!' coord hc sheet]

theorem removeChar_eq_stripDollar (v : List Char) : Model.C03.removeChar '$' v = Model.C01.stripDollar v := by
  unfold Model.C03.removeChar Model.C01.stripDollar
  congr 1
  funext c
  cases h : decide (c = '$') <;> simp_all [bne]

theorem contains_filter_false {p : Char → Bool} {x : Char} {l : List Char} (h : l.contains x = false) :
    (l.filter p).contains x = false := by
  rw [Bool.eq_false_iff] at h ⊢
  intro hc
  apply h
  simp only [List.contains_eq_mem, decide_eq_true_eq] at hc ⊢
  exact (List.mem_filter.mp hc).1

/-- the address of a plain reference to the cell `c`, written on `sheet` -/
theorem fullAddress_cell (c : Spec.C02.Cell) (h : c.WF) (sheet : Text) :
    Model.C03.fullAddress c.text sheet = sheet ++ '!' :: Spec.C01.cellAddr c := by
  obtain ⟨hb, _⟩ := Lemmas.C01.cell_no_bang c h
  have hs := Lemmas.C01.stripDollar_cell c h
  have h1 : Model.C03.stripCoordDollar c.text = Spec.C01.cellAddr c := by
    simp [Model.C03.stripCoordDollar, rsplitLast_none '!' c.text hb, removeChar_eq_stripDollar, hs]
  have h2 : (Spec.C01.cellAddr c).contains '!' = false := by
    rw [← hs]; exact contains_filter_false hb
  have h2' : '!' ∉ Spec.C01.cellAddr c := by simpa using h2
  simp [Model.C03.fullAddress, h1, Model.C03.has, h2']

theorem cellAddr_no_colon (c : Spec.C02.Cell) (h : c.WF) : (Spec.C01.cellAddr c).contains ':' = false := by
  rw [← Lemmas.C01.stripDollar_cell c h]
  exact contains_filter_false (Lemmas.C01.cell_no_bang c h).2

/-- the parse tree of a C01 expression is an operator tree over the compiled model, when the cells it refers to
    are numbers of the source (or absent from it) -/
theorem opAst_astOf {src : Source} {m : MState} (hc : compile src = .ok m) (hn : src.names = [])
    (sheet : Text) (hsheet : sheet.contains ':' = false) :
    ∀ (e : Expr), WF e → Spec.C01.inC01 e = true → Lemmas.C01.LitsFinite e → RefsOK (NumericOrAbsent src sheet) e →
      OpAst m sheet (m.ranges.map (·.1)) (srcEnv src sheet) (astOf e) := by
  obtain ⟨hnames, hkeys, hcells⟩ := compile_transparent hc hn
  intro e
  induction e using Expr.ind with
  | num n p =>
    intro hwf _ hfin _
    refine OpAst.operand _ ?_
    cases p with
    | true => simp [astOf, numTok, OperandOK]
    | false =>
      obtain ⟨k, hk, _⟩ := Lemmas.C01.textNumber_lit n hwf.1 hfin
      simp only [astOf, numTok, OperandOK, Bool.false_eq_true, if_false]
      exact ⟨k, hk⟩
  | str s => intro _ hin; simp [Spec.C01.inC01] at hin
  | bool b => intro _ hin; simp [Spec.C01.inC01] at hin
  | err c => intro _ hin; simp [Spec.C01.inC01] at hin
  | ref r =>
    intro hwf hin _ hr
    obtain ⟨sh, first, last⟩ := r
    cases sh <;> cases last <;> simp [Spec.C01.inC01] at hin
    have hwc : first.WF := hwf.2.1
    obtain ⟨hb, hcol⟩ := Lemmas.C01.cell_no_bang first hwc
    have haddr := fullAddress_cell first hwc sheet
    refine OpAst.operand _ ?_
    simp only [astOf, refTok, Ref.denoted, SheetQ.denoted, Ref.coords, List.nil_append, List.append_nil, OperandOK]
    refine ⟨hb, hcol, ?_, ?_, ?_⟩
    · -- not a key of `model.ranges`: every key contains a `:`
      rw [haddr]
      cases hk : (m.ranges.map (·.1)).contains (sheet ++ '!' :: Spec.C01.cellAddr first) with
      | false => rfl
      | true =>
        have hmem : (sheet ++ '!' :: Spec.C01.cellAddr first) ∈ m.ranges.map (·.1) := by
          simpa using hk
        have := hkeys _ hmem
        have hno : Model.C03.has ':' (sheet ++ '!' :: Spec.C01.cellAddr first) = false := by
          have h3 := cellAddr_no_colon first hwc
          simp only [Model.C03.has, List.contains_eq_mem, List.mem_append, List.mem_cons, decide_eq_false_iff_not]
            at hsheet h3 ⊢
          intro h
          rcases h with h | h | h
          · exact hsheet h
          · cases h
          · exact h3 h
        rw [hno] at this
        cases this
    · -- a constant (or absent) cell, reached without a defined name
      rw [haddr]
      refine ⟨by simp [MState.resolve, hnames, assoc], ?_⟩
      intro c hcell
      obtain ⟨k1, k2, k3⟩ := hcells (sheet ++ '!' :: Spec.C01.cellAddr first)
      simp only [RefsOK, NumericOrAbsent] at hr
      cases hl : srcLookup src.defaultSheet (sheet ++ '!' :: Spec.C01.cellAddr first) src.cells with
      | none =>
        rcases k1 hl with h' | ⟨c', h', hf', _⟩
        · rw [h'] at hcell; cases hcell
        · rw [h'] at hcell; cases hcell; exact hf'
      | some cont =>
        rw [hl] at hr
        cases cont with
        | const v =>
          obtain ⟨c', h', hf', _⟩ := k2 v hl
          rw [h'] at hcell; cases hcell; exact hf'
        | formula t => simp at hr
    · -- its value is what the source says
      rw [haddr, Lemmas.C01.stripDollar_cell first hwc]
      obtain ⟨k1, k2, k3⟩ := hcells (sheet ++ '!' :: Spec.C01.cellAddr first)
      simp only [RefsOK, NumericOrAbsent] at hr
      simp only [srcEnv, cellVal]
      cases hl : srcLookup src.defaultSheet (sheet ++ '!' :: Spec.C01.cellAddr first) src.cells with
      | none =>
        rcases k1 hl with h' | ⟨c', h', _, hv'⟩
        · simp [h']
        · simp [h', hv']
      | some cont =>
        rw [hl] at hr
        cases cont with
        | const v =>
          obtain ⟨c', h', _, hv'⟩ := k2 v hl
          cases v <;> simp at hr
          simp [h', hv']
        | formula t => simp at hr
  | neg e ih =>
    intro hwf hin hfin hr
    exact OpAst.unop _ _ ['-'] rfl rfl (by decide) (ih hwf.1 hin hfin hr)
  | bin o l r ihl ihr =>
    intro hwf hin hfin hr
    simp only [Spec.C01.inC01, Bool.and_eq_true] at hin
    refine OpAst.binop _ _ _ o.sym rfl ?_ (ihl hwf.1 hin.1 hfin.1 hr.1) (ihr hwf.2.1 hin.2 hfin.2 hr.2)
    rw [Props.C01.op_func_table.1 o]
    rfl
  | paren e ih => intro hwf hin hfin hr; exact ih hwf hin hfin hr
  | call a f args _ => intro _ hin; simp [Spec.C01.inC01] at hin

/-- **`compile_operator_formula_ext`.**  Let a workbook source without defined names compile to `m`, and let the
    cell `sheet!coord` hold the text `render b e` of a well-formed operator formula `e` (C01's grammar, any
    placement of blanks) that refers to cells of its sheet which the source gives a number or does not mention.
    Then evaluating that cell through the pipeline — `compile`, then `Evaluator.fresh` with the library
    semantics — is the AST evaluator of C01 on the expected parse tree, for every library behaviour `ext`. -/
theorem compile_operator_formula_ext (ext : Ext) (e : Expr) (b : Blanks) (hwf : WF e) (hin : Spec.C01.inC01 e = true)
    (hfin : Lemmas.C01.LitsFinite e) (src : Source) (m : MState) (hc : compile src = .ok m) (hn : src.names = [])
    (sheet coord : Text) (hsheet : sheet.contains ':' = false) (hcoord : coord.contains '!' = false)
    (hcell : srcLookup src.defaultSheet (sheet ++ '!' :: coord) src.cells = some (.formula (render b e)))
    (hrefs : RefsOK (NumericOrAbsent src sheet) e) (fuel : Nat) :
    fresh (libSemOf ext) (fuel + 2) m (sheet ++ '!' :: coord)
      = liftCell (sheet ++ '!' :: coord) (render b e).length (evalAstE ext (srcEnv src sheet) (astOf e)) := by
  obtain ⟨hnames, _, hcells⟩ := compile_transparent hc hn
  obtain ⟨ast, fx, c, hparse, htofx, hmc, hcf, hlen⟩ := (hcells (sheet ++ '!' :: coord)).2.2 _ hcell
  rw [Props.C02.parse_render e hwf b] at hparse
  cases hparse
  rw [sheetOf_append sheet coord hcoord] at htofx
  have hop := opAst_astOf hc hn sheet hsheet e hwf hin hfin hrefs
  have hres : m.resolve (sheet ++ '!' :: coord) = sheet ++ '!' :: coord := by
    simp [MState.resolve, hnames, assoc]
  rw [fresh_operator_cell ext m fuel _ c fx sheet _ (srcEnv src sheet) (astOf e) hres hmc hcf htofx hop, hlen]

/-- **`compile_operator_formula`.**  … with the library behaviour of C01's driver, evaluation through the
    pipeline IS `Model.C01.evaluateFormula` of the text. -/
theorem compile_operator_formula (e : Expr) (b : Blanks) (hwf : WF e) (hin : Spec.C01.inC01 e = true)
    (hfin : Lemmas.C01.LitsFinite e) (src : Source) (m : MState) (hc : compile src = .ok m) (hn : src.names = [])
    (sheet coord : Text) (hsheet : sheet.contains ':' = false) (hcoord : coord.contains '!' = false)
    (hcell : srcLookup src.defaultSheet (sheet ++ '!' :: coord) src.cells = some (.formula (render b e)))
    (hrefs : RefsOK (NumericOrAbsent src sheet) e) (fuel : Nat) :
    fresh (libSemOf Model.C01.ext0) (fuel + 2) m (sheet ++ '!' :: coord)
      = liftCell (sheet ++ '!' :: coord) (render b e).length
          (Model.C01.evaluateFormula (render b e) (srcEnv src sheet)) := by
  rw [compile_operator_formula_ext Model.C01.ext0 e b hwf hin hfin src m hc hn sheet coord hsheet hcoord hcell hrefs fuel,
    evalAstE_ext0, Props.C01.evaluate_render e hwf b]

/-- … and for `libSem` itself (the library behaviour `x01Ext`: `str(float)` of short decimals, `str(datetime)` of
    whole days): the same AST evaluator with that behaviour -/
theorem compile_operator_formula_libSem (e : Expr) (b : Blanks) (hwf : WF e) (hin : Spec.C01.inC01 e = true)
    (hfin : Lemmas.C01.LitsFinite e) (src : Source) (m : MState) (hc : compile src = .ok m) (hn : src.names = [])
    (sheet coord : Text) (hsheet : sheet.contains ':' = false) (hcoord : coord.contains '!' = false)
    (hcell : srcLookup src.defaultSheet (sheet ++ '!' :: coord) src.cells = some (.formula (render b e)))
    (hrefs : RefsOK (NumericOrAbsent src sheet) e) (fuel : Nat) :
    fresh libSem (fuel + 2) m (sheet ++ '!' :: coord)
      = liftCell (sheet ++ '!' :: coord) (render b e).length (evalAstE x01Ext (srcEnv src sheet) (astOf e)) :=
  compile_operator_formula_ext x01Ext e b hwf hin hfin src m hc hn sheet coord hsheet hcoord hcell hrefs fuel

/-- … and hence (`Props.C01.C01`) the value of the expression under Excel's grammar -/
theorem compile_operator_formula_denote (e : Expr) (b : Blanks) (hwf : WF e) (hin : Spec.C01.inC01 e = true)
    (hfin : Lemmas.C01.LitsFinite e) (src : Source) (m : MState) (hc : compile src = .ok m) (hn : src.names = [])
    (sheet coord : Text) (hsheet : sheet.contains ':' = false) (hcoord : coord.contains '!' = false)
    (hcell : srcLookup src.defaultSheet (sheet ++ '!' :: coord) src.cells = some (.formula (render b e)))
    (hrefs : RefsOK (NumericOrAbsent src sheet) e) (fuel : Nat)
    (s : Spec.C01.Env) (henv : Lemmas.C01.EnvOK (srcEnv src sheet) s) (hu : Spec.C01.denote s e ≠ .undef) :
    ∃ o, fresh (libSemOf Model.C01.ext0) (fuel + 2) m (sheet ++ '!' :: coord)
           = liftCell (sheet ++ '!' :: coord) (render b e).length o ∧
         Lemmas.C01.Agree o (Spec.C01.denote s e) :=
  ⟨_, compile_operator_formula e b hwf hin hfin src m hc hn sheet coord hsheet hcoord hcell hrefs fuel,
    Props.C01.C01 e b _ s henv hwf hin hfin hu⟩

/-- `compile` is transparent (`Lemmas/X01Compile.lean`) -/
theorem compile_transparent {src : Source} {m : MState} (h : compile src = .ok m) (hn : src.names = []) :
    m.names = [] ∧
    (∀ key, key ∈ m.ranges.map (·.1) → Model.C03.has ':' key = true) ∧
    ∀ k,
      (srcLookup src.defaultSheet k src.cells = none →
        m.cell? k = none ∨ ∃ c, m.cell? k = some c ∧ c.formula = none ∧ c.value = .s .blank) ∧
      (∀ v, srcLookup src.defaultSheet k src.cells = some (.const v) →
        ∃ c, m.cell? k = some c ∧ c.formula = none ∧ c.value = .s v) ∧
      (∀ text, srcLookup src.defaultSheet k src.cells = some (.formula text) →
        ∃ ast fx c, parse [] text = .ok ast ∧ toFx (Model.C03.sheetOf k) (m.ranges.map (·.1)) ast = .ok fx ∧
          m.cell? k = some c ∧ c.formula = some fx ∧ c.formulaLen = text.length) :=
  Lemmas.X01.compile_transparent h hn

/-! ## the generic theorems of C04 / C05 / C06, for the whole modelled library -/

/-- `Evaluator.evaluate` on a compiled workbook returns the value of a freshly compiled one with the same inputs and
    changes nothing but stored results (C04 `evalCell_pure`) -/
theorem X01_pure (fuel : Nat) (m : MState) (a : Addr) :
    erase (evaluate libSem fuel m a).1 = erase m ∧ (evaluate libSem fuel m a).2.1 = fresh libSem fuel (erase m) a :=
  Props.C04.evalCell_pure libSem fuel m a

/-- after any history of `set_cell_value` / `evaluate`, `evaluate` returns the reference value of the current inputs,
    and the value read back is the value returned (C04) -/
theorem X01_history (fuel : Nat) (m0 : MState) (pre : List Model.C04.Op) (a : Addr) :
    (evaluate libSem fuel (Model.C04.run libSem fuel m0 pre).1 a).2.1
        = Spec.C04.value Gen.maxEmpty libSem fuel (Model.C04.inputsAfter m0 pre) a
    ∧ (∀ v, ((Model.C04.run libSem fuel m0 pre).1.cell? ((Model.C04.run libSem fuel m0 pre).1.resolve a)).isSome →
          (evaluate libSem fuel (Model.C04.run libSem fuel m0 pre).1 a).2.1 = .val v →
          (evaluate libSem fuel (Model.C04.run libSem fuel m0 pre).1 a).1.getCellValue a = v) :=
  Props.C04.C04 libSem fuel m0 pre a

/-- whatever was evaluated before, by however many evaluators sharing the model, in whatever order (C05) -/
theorem X01_order_independent (fuel : Nat) (m : MState) (k1 k2 : Nat) (s1 s2 : List (Nat × Addr)) (e1 e2 : Nat)
    (a : Addr) :
    (Model.C04.Sys.evaluate libSem fuel (Model.C04.Sys.runSched libSem fuel (Model.C04.Sys.init m k1) s1).1 e1 a).2
        = Spec.C04.value Gen.maxEmpty libSem fuel m a
    ∧ (Model.C04.Sys.evaluate libSem fuel (Model.C04.Sys.runSched libSem fuel (Model.C04.Sys.init m k2) s2).1 e2 a).2
        = (Model.C04.Sys.evaluate libSem fuel (Model.C04.Sys.runSched libSem fuel (Model.C04.Sys.init m k1) s1).1 e1 a).2 :=
  Props.C05.order_independent libSem fuel m k1 k2 s1 s2 e1 e2 a

/-- a second `evaluate` returns the same result and leaves the model as the first left it (C05) -/
theorem X01_idempotent (fuel : Nat) (m : MState) (a : Addr) :
    (evaluate libSem fuel (evaluate libSem fuel m a).1 a).2.1 = (evaluate libSem fuel m a).2.1
    ∧ (evaluate libSem fuel (evaluate libSem fuel m a).1 a).1 = (evaluate libSem fuel m a).1 :=
  Props.C05.idempotent libSem fuel m a

/-- with a recursion budget above the number of formula cells the outcome is never RecursionError (C06) -/
theorem X01_terminates (m : MState) (a : Addr) (fuel : Nat) (h : formulaCount m < fuel) :
    ∀ n, Props.C06.outcome libSem fuel m a ≠ .exc .recursion n :=
  Props.C06.terminates libSem m a fuel h

/-- no cycle is reported below an acyclic dependency graph (C06) -/
theorem X01_cycle_sound (m : MState) (a : Addr) (fuel : Nat)
    (h : Spec.C06.AcyclicBelow (Model.C06.deps m) (m.resolve a)) :
    ∀ n, Props.C06.outcome libSem fuel m a ≠ .exc .cycle n :=
  Props.C06.cycle_sound libSem m a fuel h

/-- the same for the semantics the driver runs (`guardOf libSem`: `^` outside the model answers the sentinel;
    `strictOf`: the exactness probe) — purity of evaluation does not depend on what the functions compute -/
theorem X01_pure_driver (fuel : Nat) (m : MState) (a : Addr) :
    (evaluate (guardOf libSem) fuel m a).2.1 = fresh (guardOf libSem) fuel (erase m) a ∧
    (evaluate (strictOf (guardOf libSem)) fuel m a).2.1 = fresh (strictOf (guardOf libSem)) fuel (erase m) a :=
  ⟨(Props.C04.evalCell_pure _ fuel m a).2, (Props.C04.evalCell_pure _ fuel m a).2⟩

/-! ## `toFx` is total on well-formed formulas -/

/-- **`toFx_total_on_wf`.**  For every well-formed formula of C02's grammar (literals, references with sheets and
    ranges, operators, parentheses, calls of ANY name, nested at will) whose numeric literals are finite doubles:
    `toFx` of its parse tree succeeds, with exactly one `Fx` node per node of the tree — plus one literal per omitted
    IF branch.  A call of an unknown function does not fail: it compiles to `Fx.fail` (`callFx_unknown`). -/
theorem toFx_total_on_wf (sheet : Text) (keys : List Text) (e : Expr) (hwf : WF e) (hl : LitsOK e) :
    ∃ fx, toFx sheet keys (astOf e) = .ok fx ∧ fxNodes fx = astNodes (astOf e) + omitted (astOf e) := by
  obtain ⟨fx, hfx⟩ := toFx_astOf_ok Props.C01.op_func_table sheet keys e hwf hl
  exact ⟨fx, hfx, toFx_nodes sheet keys _ fx hfx⟩

/-- through the text: the parse of any rendering compiles -/
theorem compile_text_total (sheet : Text) (keys : List Text) (e : Expr) (b : Blanks) (hwf : WF e) (hl : LitsOK e) :
    ∃ ast fx, parse [] (render b e) = .ok ast ∧ toFx sheet keys ast = .ok fx := by
  obtain ⟨fx, hfx, _⟩ := toFx_total_on_wf sheet keys e hwf hl
  exact ⟨astOf e, fx, Props.C02.parse_render e hwf b, hfx⟩

theorem callFx_unknown (tv : Text) (args : List Fx) (h : funcIndex (callName tv) = none) :
    callFx tv args = .fail (keyErrorLen (callName tv)) args := Lemmas.X01.callFx_unknown tv args h

/-! ## the wrapper -/

/-- step 1 of `validate_args` as the pipeline runs it (`validateAllX`: + `Number.cast(Array)` → #VALUE!, + `DateTime.cast`)
    is the shared model `Model.Validate.validateAll` whenever no parameter is an `XlDateTime` and no argument is an
    `Array` bound to a single parameter — up to "outside the model" for a non-finite number -/
theorem wrapper_refines (ext : Ext) (ps : List Gen.Param) (as : List Model.Validate.PArg)
    (hp : ∀ p ∈ ps, notDateTime p.annot = true) (ha : ∀ a ∈ as, notArrayArg a = true) :
    validateAllX ext ps as = .unsup ∨ validateAllX ext ps as = XR.ofR (Model.Validate.validateAll ext ps as) :=
  validateAllX_refines ext ps as hp ha

/-! ## reference compilation is C03's -/

/-- the address `toFx` computes for a reference token is `Model.C03.fullAddress` (`RangeNode.full_address`: `$`
    stripped from the coordinate part, the own sheet prefixed); it becomes `Fx.rng` exactly when it is a key of the
    built ranges -/
theorem toFx_reference (sheet : Text) (keys : List Text) (v : Text) (ty : TType) :
    toFx sheet keys (.operand ⟨.s v, ty, .range⟩) =
      .ok (if keys.contains (Model.C03.fullAddress v sheet) then .rng (Model.C03.fullAddress v sheet)
           else .ref (Model.C03.fullAddress v sheet)) := rfl

/-- … and it is the term `XLFormula.__post_init__` registers for the same token (what `build_ranges` keys the
    ranges by): evaluation and range construction agree on the address -/
theorem toFx_reference_term (sheet : Text) (v : Text) :
    Model.C03.termsLoop sheet [v] [] = [Model.C03.fullAddress v sheet] := by
  simp [Model.C03.termsLoop, Model.C03.fullAddress]

/-- the `$` markers of a coordinate do not matter (C03 `dollar_irrelevant`, here for plain cells) -/
theorem toFx_reference_dollar (sheet : Text) (c : Spec.C02.Cell) (h : c.WF) :
    Model.C03.fullAddress c.text sheet = sheet ++ '!' :: Spec.C01.cellAddr c := fullAddress_cell c h sheet

/-! ## non-vacuity: whole workbooks through the whole pipeline, in the kernel -/

/-- `A1 = 2`, `B1 = =A1*3`, `C1 = =SUM(A1:B1)&"x"` -/
def wb3 : Source :=
  { cells := [("Sheet1!A1".toList, .const (.num (.int 2))),
              ("Sheet1!B1".toList, .formula "=A1*3".toList),
              ("Sheet1!C1".toList, .formula "=SUM(A1:B1)&\"x\"".toList)] }

def evalSrc (src : Source) (a : String) : Option Res :=
  match compile src with
  | .ok m => some (fresh libSem 50 m a.toList)
  | .error _ => none

example : evalSrc wb3 "Sheet1!B1" = some (.val (.s (.num (.int 6)))) := by decide +kernel
example : evalSrc wb3 "Sheet1!C1" = some (.val (.s (.text "8x".toList))) := by decide +kernel

/-- two sheets (one quoted), `$` spellings, a cross-sheet range, IF / AND laziness, a defined name, a text
    function, a date function, an error value and its test, rounding, base conversion -/
def wb9 : Source :=
  { cells := [("A1".toList, .const (.num (.int 7))),
              ("My Sheet!A1".toList, .const (.num (.flt (5 / 2)))),
              ("My Sheet!A2".toList, .const (.text "ab".toList)),
              ("Sheet1!B1".toList, .formula "=SUM('My Sheet'!$A$1:A2, A1, rate)".toList),
              ("Sheet1!B2".toList, .formula "=IF(AND(A1>5, ISTEXT('My Sheet'!A2)), UPPER('My Sheet'!A2)&LEN(B1), 1/0)".toList),
              ("Sheet1!B3".toList, .formula "=YEAR(DATE(2020,2,30))&\"-\"&DEC2BIN(5,4)&\"-\"&ROUND(2.5,0)".toList),
              ("Sheet1!B4".toList, .formula "=ISERROR(1/0)=NOT(FALSE)".toList),
              ("Sheet1!B5".toList, .formula "=NOSUCH(1)".toList),
              ("Sheet1!B6".toList, .formula "=B6+1".toList)],
    names := [("rate".toList, "'My Sheet'!$A$1".toList)] }

example : evalSrc wb9 "Sheet1!B1" = some (.val (.s (.num (.flt 12)))) := by decide +kernel
example : evalSrc wb9 "Sheet1!B2" = some (.val (.s (.text "AB4".toList))) := by decide +kernel
example : evalSrc wb9 "Sheet1!B3" = some (.val (.s (.text "2020-0101-3.0".toList))) := by decide +kernel
example : evalSrc wb9 "rate" = some (.val (.s (.num (.flt (5 / 2))))) := by decide +kernel
/-- an unknown function: "Problem evaluating cell Sheet1!B5 formula =NOSUCH(1): KeyError('NOSUCH')" (72 characters) -/
example : evalSrc wb9 "Sheet1!B5" = some (.exc .runtime 72) := by decide +kernel
/-- a cycle: "Cycle detected for Sheet1!B6:\n- Sheet1!B6" -/
example : evalSrc wb9 "Sheet1!B6" = some (.exc .cycle 41) := by decide +kernel

/-- the hypotheses of `compile_operator_formula` are satisfiable: `=A1*3` in `wb3` -/
def exprB1 : Expr := .bin .mul (.ref { first := { col := ['A'], row := [1] } }) (.num { ip := [3] } false)

example : render Blanks.none exprB1 = "=A1*3".toList := by decide
example : WF exprB1 ∧ Spec.C01.inC01 exprB1 = true ∧ RefsOK (NumericOrAbsent wb3 "Sheet1".toList) exprB1 := by
  refine ⟨?_, by decide, ?_⟩
  · simp [exprB1, WF, Ref.WF, SheetQ.WF, Cell.WF, NumLit.WF, AllDigits, Expr.level, BinOp.prec]
  · have h : srcLookup wb3.defaultSheet ("Sheet1".toList ++ '!' :: Spec.C01.cellAddr { col := ['A'], row := [1] }) wb3.cells
        = some (.const (.num (.int 2))) := by decide +kernel
    refine ⟨?_, trivial⟩
    show NumericOrAbsent wb3 "Sheet1".toList { col := ['A'], row := [1] }
    unfold NumericOrAbsent
    rw [h]
    trivial
example : srcLookup wb3.defaultSheet ("Sheet1".toList ++ '!' :: "B1".toList) wb3.cells
    = some (.formula (render Blanks.none exprB1)) := by decide +kernel
example : (compile wb3).toOption.isSome = true := by decide +kernel

/-! ## transport: the library theorems carried to formula TEXTS

  A workbook source `src` without defined names compiles to `m`; its cell `sheet!coord` holds the text
  `render b e` of a well-formed formula `e` of the Spec.C02 grammar (`FormulaAt`; `b` places the blanks).
  `RefsConst src sheet e`: every reference written in `e` — relative or `$`, sheet-qualified (also with a quoted
  title), a cell or a rectangle — reads cells the source gives a constant or does not mention (blank); a rectangle is
  read completely (at most MAX_EMPTY cells: finding D6 — this bound is what the `_partial` names refer to). -/

/-- what `evaluate` returns after the history `pre` of `set_cell_value` / `evaluate` / `get_cell_value` calls -/
abbrev evalAfter (sem : Sem) (fuel : Nat) (m : MState) (pre : List Model.C04.Op) (a : Addr) : Res :=
  (evaluate sem fuel (Model.C04.run sem fuel m pre).1 a).2.1

/-- **`compile_const_formula`.**  ANY well-formed formula over constants — operators, nested calls, IF / AND / OR,
    unknown functions, wrong argument counts — evaluates, through `compile` and a fresh evaluator, to the context-free
    value `pureVal` of the compilation of its expected parse tree; after any history, to that value in the model with
    the CURRENT inputs. -/
theorem compile_const_formula_partial (sem : Sem) (e : Expr) (b : Blanks) (hwf : WF e) {src : Source} {m : MState}
    {sheet coord : Text} (H : FormulaAt src m sheet coord (render b e)) (hrefs : RefsConst src sheet e) (fuel : Nat) :
    ∃ fx, toFx sheet (m.ranges.map (·.1)) (astOf e) = .ok fx ∧
      fresh sem (fuel + 2) m (sheet ++ '!' :: coord)
        = cellRes (sheet ++ '!' :: coord) (render b e).length (pureVal sem m fx) ∧
      ∀ pre, evalAfter sem (fuel + 2) m pre (sheet ++ '!' :: coord)
        = cellRes (sheet ++ '!' :: coord) (render b e).length (pureVal sem (Model.C04.inputsAfter m pre) fx) :=
  formula_cell_value e hwf b H hrefs sem fuel

/-- a call `F(a₁, …, aₙ)` written in a cell: the arguments are scalar literals (every numeral spelling with a finite
    value, strings, TRUE / FALSE, error literals) and references to constants -/
structure CallAt (src : Source) (m : MState) (sheet coord : Text) (b : Blanks) (a : Bool) (f : Text)
    (args : List Expr) : Prop where
  wf : WF (.call a f args)
  lits : LitsOK (.call a f args)
  leaves : ∀ x ∈ args, IsLeaf x = true
  cell : FormulaAt src m sheet coord (render b (.call a f args))
  consts : RefsConst src sheet (.call a f args)

/-- `f` (any case, optional `_xlfn.`) names the registered function `id` = `fn`, which takes `n` arguments and is not
    one of the lazily evaluated IF / AND / OR -/
structure StrictFn (f : Text) (id : Nat) (fn : Gen.Func) (n : Nat) : Prop where
  index : funcIndex (callName f) = some id
  entry : funcAt id = some fn
  arity : arityCheck fn.params n = .ok
  notIF : fn.name ≠ nameIF
  notAND : fn.name ≠ nameAND
  notOR : fn.name ≠ nameOR

/-- **`compile_call_formula_partial`.**  The cell holding `render b (F(a₁…aₙ))` evaluates to the library's
    application of `F` — `sem.app id`, for `libSem` the `validate_args` wrapper around the body model
    (`libSem_call_body` / `libSem_call_aggregate`) — to the values of the arguments: the Spec value of a literal, the
    constant of a referenced cell (blank if absent), the row-major array of a rectangle.  Fresh evaluator: the values
    the source gives; after any history: the current values in the model. -/
theorem compile_call_formula_partial (sem : Sem) {src : Source} {m : MState} {sheet coord : Text} {b : Blanks}
    {a : Bool} {f : Text} {args : List Expr} (C : CallAt src m sheet coord b a f args)
    {id : Nat} {fn : Gen.Func} (F : StrictFn f id fn args.length) (fuel : Nat) :
    fresh sem (fuel + 2) m (sheet ++ '!' :: coord)
      = cellRes (sheet ++ '!' :: coord) (render b (.call a f args)).length
          (resOfAppR (sem.app id (args.map (leafVal src sheet)))) ∧
    ∀ pre, evalAfter sem (fuel + 2) m pre (sheet ++ '!' :: coord)
      = cellRes (sheet ++ '!' :: coord) (render b (.call a f args)).length
          (resOfAppR (sem.app id (args.map (leafValM (Model.C04.inputsAfter m pre) sheet)))) := by
  obtain ⟨hwf, hl, hleaf, H, hrefs⟩ := C
  obtain ⟨hid, hfn, har, n1, n2, n3⟩ := F
  have hname := callName_eq hid hfn
  have hwfs := (WFs_iff args).mp hwf.2
  have hls := (LitsOKs_iff args).mp (by simpa [LitsOK] using hl)
  have hreg := registered_of_cell _ hwf b H
  obtain ⟨fxs, hfxs, hlen, hvals⟩ := leaves_valM H.compiled H.noNames sheet H.sheetOK sem args
    (fun x hx => ⟨hleaf x hx, hwfs x hx, hls x hx,
      fun r hr => hreg r (by simp only [refsOf]; exact mem_refsOfL.mpr ⟨x, hx, hr⟩)⟩)
  obtain ⟨fx, hfx, hfresh, hhist⟩ := formula_cell_value _ hwf b H hrefs sem fuel
  have hfx' : toFx sheet (m.ranges.map (·.1)) (astOf (.call a f args)) = .ok (.app id fxs) := by
    simp only [astOf, toFx, fnName, hfxs]
    rw [callFx_app f fxs id fn hid hfn (by rw [hlen]; exact har) (by rw [hname]; exact n1) (by rw [hname]; exact n2)
      (by rw [hname]; exact n3)]
  rw [hfx'] at hfx
  cases hfx
  constructor
  · rw [hfresh, pureVal_app sem m id fxs _ (hvals m rfl)]
    have : args.map (leafValM m sheet) = args.map (leafVal src sheet) := by
      apply List.map_congr_left
      intro x hx
      exact leafValM_src H.compiled H.noNames sheet x ((RefsConstL_iff src sheet args).mp (by simpa [RefsConst] using hrefs) x hx)
    rw [this]
  · intro pre
    show (evaluate sem (fuel + 2) (Model.C04.run sem (fuel + 2) m pre).1 (sheet ++ '!' :: coord)).2.1 = _
    rw [hhist pre, pureVal_app sem _ id fxs _ (hvals _ (inputsAfter_ranges pre m))]

/-- **`compile_call_formula`** (full strength): when the references among the arguments are cell references — no
    bound on anything — to cells the source gives a constant or does not mention. -/
theorem compile_call_formula (sem : Sem) {src : Source} {m : MState} {sheet coord : Text} (b : Blanks)
    (a : Bool) (f : Text) (args : List Expr) (hwf : WF (.call a f args)) (hl : LitsOK (.call a f args))
    (hleaf : ∀ x ∈ args, IsLeaf x = true) (H : FormulaAt src m sheet coord (render b (.call a f args)))
    (hcells : ∀ r ∈ refsOfL args, r.last = none ∧ ConstSrc src (Model.C03.fullAddress r.denoted sheet))
    {id : Nat} {fn : Gen.Func} (F : StrictFn f id fn args.length) (fuel : Nat) :
    fresh sem (fuel + 2) m (sheet ++ '!' :: coord)
      = cellRes (sheet ++ '!' :: coord) (render b (.call a f args)).length
          (resOfAppR (sem.app id (args.map (leafVal src sheet)))) ∧
    ∀ pre, evalAfter sem (fuel + 2) m pre (sheet ++ '!' :: coord)
      = cellRes (sheet ++ '!' :: coord) (render b (.call a f args)).length
          (resOfAppR (sem.app id (args.map (leafValM (Model.C04.inputsAfter m pre) sheet)))) := by
  refine compile_call_formula_partial sem ⟨hwf, hl, hleaf, H, ?_⟩ F fuel
  simp only [RefsConst]
  rw [RefsConstL_iff]
  intro x hx
  have hlx := hleaf x hx
  cases x with
  | ref r =>
    obtain ⟨h1, h2⟩ := hcells r (mem_refsOfL.mpr ⟨_, hx, by simp [refsOf]⟩)
    simp only [RefsConst, RefConst, h1]
    exact h2
  | num n p => simp [RefsConst]
  | str s => simp [RefsConst]
  | bool v => simp [RefsConst]
  | err c => simp [RefsConst]
  | neg e => simp [IsLeaf] at hlx
  | bin o l r => simp [IsLeaf] at hlx
  | paren e => simp [IsLeaf] at hlx
  | call a f args => simp [IsLeaf] at hlx

/-- what `libSem` applies for a function with a body model: the `validate_args` wrapper around it -/
theorem libSem_call_body (id : Nat) (fn : Gen.Func) (body : List Model.Validate.VArg → XR V) (vs : List V)
    (hfn : funcAt id = some fn) (hin : isInfixName fn.name = false) (hpre : isPrefixName fn.name = false)
    (hagg : aggregateOf x01Ext (String.ofList fn.name) = none)
    (hb : bodyOf x01Ext (String.ofList fn.name) = some body) :
    libSem.app id vs = ofXR id (wrapX x01Ext fn body vs) :=
  appOf_body x01Ext id fn body vs hfn hin hpre hagg hb

/-- … and for the aggregates (SUM, AVERAGE, MIN, MAX, COUNT, …), whose models take the arguments as they are -/
theorem libSem_call_aggregate (id : Nat) (fn : Gen.Func) (g : List V → XR V) (vs : List V)
    (hfn : funcAt id = some fn) (hin : isInfixName fn.name = false) (hpre : isPrefixName fn.name = false)
    (hagg : aggregateOf x01Ext (String.ofList fn.name) = some g) :
    libSem.app id vs = ofXR id (g vs) :=
  appOf_agg x01Ext id fn g vs hfn hin hpre hagg

/-! ### nested calls, by induction on the formula -/

/-- a literal or reference argument of the formula `e` of the cell has its value, in every model with the ranges of
    `m` (`m` itself, and the current inputs after any history) -/
theorem exprVal_leaf (sem : Sem) {src : Source} {m : MState} {sheet coord : Text} (e : Expr) (hwf : WF e) (b : Blanks)
    (H : FormulaAt src m sheet coord (render b e)) (x : Expr) (hsub : ∀ r ∈ refsOf x, r ∈ refsOf e)
    (hleaf : IsLeaf x = true) (hx : WF x) (hlx : LitsOK x) (m' : MState) (hr : m'.ranges = m.ranges) :
    ExprVal sem m' sheet x (leafValM m' sheet x) := by
  obtain ⟨fx, h1, h2⟩ := leaf_valM H.compiled H.noNames sheet H.sheetOK sem x hleaf hx hlx
    (fun r hr => registered_of_cell e hwf b H r (hsub r hr))
  exact ⟨fx, by rw [hr]; exact h1, h2 m' hr⟩

/-- … which, for a reference to constants, is the value the source gives -/
theorem exprVal_leaf_src (sem : Sem) {src : Source} {m : MState} {sheet coord : Text} (e : Expr) (hwf : WF e) (b : Blanks)
    (H : FormulaAt src m sheet coord (render b e)) (x : Expr) (hsub : ∀ r ∈ refsOf x, r ∈ refsOf e)
    (hleaf : IsLeaf x = true) (hx : WF x) (hlx : LitsOK x) (hcx : RefsConst src sheet x) :
    ExprVal sem m sheet x (leafVal src sheet x) := by
  rw [← leafValM_src H.compiled H.noNames sheet x hcx]
  exact exprVal_leaf sem e hwf b H x hsub hleaf hx hlx m rfl

/-- a call of a strict registered function whose arguments have values has the value the library computes -/
theorem exprVal_call {sem : Sem} {m : MState} {sheet : Text} (a : Bool) (f : Text) {args : List Expr} {vs : List V}
    (hargs : ArgsVal sem m sheet args vs) {id : Nat} {fn : Gen.Func} (F : StrictFn f id fn args.length)
    (w : V) (hw : sem.app id vs = .val w) : ExprVal sem m sheet (.call a f args) w := by
  obtain ⟨hid, hfn, har, n1, n2, n3⟩ := F
  have hname := callName_eq hid hfn
  exact call_exprVal a f hargs id fn hid hfn har (by rw [hname]; exact n1) (by rw [hname]; exact n2)
    (by rw [hname]; exact n3) w hw

/-- **`compile_nested_formula_partial`.**  A formula over constants that HAS a value by the rules `exprVal_leaf`,
    `exprVal_call`, `ExprVal.paren`, `ArgsVal.cons` (calls nested to any depth) evaluates to it — fresh, and after any
    history (with the rules applied in the model of the current inputs). -/
theorem compile_nested_formula_partial (sem : Sem) (e : Expr) (b : Blanks) (hwf : WF e) {src : Source} {m : MState}
    {sheet coord : Text} (H : FormulaAt src m sheet coord (render b e)) (hrefs : RefsConst src sheet e) (fuel : Nat) :
    (∀ v, ExprVal sem m sheet e v → fresh sem (fuel + 2) m (sheet ++ '!' :: coord) = .val v) ∧
    (∀ pre v, ExprVal sem (Model.C04.inputsAfter m pre) sheet e v →
      evalAfter sem (fuel + 2) m pre (sheet ++ '!' :: coord) = .val v) := by
  obtain ⟨fx, hfx, hfresh, hhist⟩ := formula_cell_value e hwf b H hrefs sem fuel
  constructor
  · rintro v ⟨fx', h1, h2⟩
    rw [hfx] at h1; cases h1
    rw [hfresh, h2]; rfl
  · rintro pre v ⟨fx', h1, h2⟩
    rw [inputsAfter_ranges pre m, hfx] at h1; cases h1
    show (evaluate sem (fuel + 2) (Model.C04.run sem (fuel + 2) m pre).1 (sheet ++ '!' :: coord)).2.1 = _
    rw [hhist pre, h2]; rfl

/-- the value of a call cell, when the library returns a value -/
theorem call_cell_val {src : Source} {m : MState} {sheet coord : Text} {b : Blanks}
    {a : Bool} {f : Text} {args : List Expr} (C : CallAt src m sheet coord b a f args)
    {id : Nat} {fn : Gen.Func} (F : StrictFn f id fn args.length) (fuel : Nat) (vs : List V)
    (hvs : args.map (leafVal src sheet) = vs) (w : V) (hw : libSem.app id vs = .val w) :
    fresh libSem (fuel + 2) m (sheet ++ '!' :: coord) = .val w := by
  rw [(compile_call_formula_partial libSem C F fuel).1, hvs, hw]; rfl

set_option maxRecDepth 100000

/-! ### the per-property corollaries -/

theorem strict_LEFT {f : Text} (h : funcIndex (callName f) = some (idOf "LEFT")) : StrictFn f (idOf "LEFT") fLEFT 2 :=
  ⟨h, rfl, rfl, by decide, by decide, by decide⟩

/-- **`X01_LEFT`** (C17 `LEFT_refines`): the text `LEFT(x, y)` — any spelling of the name, any blanks — over a text
    and a number, written or in constant cells, evaluates to the first `int(y)` characters; an error value when
    `int(y) < 0`. -/
theorem X01_LEFT {src : Source} {m : MState} {sheet coord : Text} {b : Blanks} {a : Bool} {f : Text} {x y : Expr}
    (C : CallAt src m sheet coord b a f [x, y]) (hf : funcIndex (callName f) = some (idOf "LEFT"))
    (s : List Char) (k : Num) (hx : leafVal src sheet x = .s (.text s)) (hy : leafVal src sheet y = .s (.num k))
    (fuel : Nat) :
    ∃ r, fresh libSem (fuel + 2) m (sheet ++ '!' :: coord) = .val (.s r) ∧
      (match Spec.C17.left s (Model.C17.pyInt k) with
       | some t => r = .text t
       | none => ∃ c, r = .err c) := by
  have happ := LEFT_app x01Ext s k
  have href := Props.C17.LEFT_refines s k
  cases hL : Model.C17.LEFT s k with
  | ok t =>
    rw [hL] at happ href
    refine ⟨.text t, call_cell_val C (strict_LEFT hf) fuel _ (by simp [hx, hy]) _ happ, ?_⟩
    rw [← href]; rfl
  | error c =>
    rw [hL] at happ href
    refine ⟨.err c, call_cell_val C (strict_LEFT hf) fuel _ (by simp [hx, hy]) _ happ, ?_⟩
    rw [← href]; exact ⟨c, rfl⟩

theorem strict_ROUND {f : Text} (h : funcIndex (callName f) = some (idOf "ROUND")) :
    StrictFn f (idOf "ROUND") fROUND 2 :=
  ⟨h, rfl, rfl, by decide, by decide, by decide⟩

/-- **`X01_ROUND_partial`** (C16 `ROUND_refines`): `ROUND(x, d)` over WHOLE numbers `z`, `d` (|d| ≤ 400) is `z`
    rounded half away from zero at the decimal position `d`.  (Partial: a first argument with a fractional part goes
    through `decOfNum`, the shortest-repr decimal of the double, whose agreement with the rational value is not
    proved here.) -/
theorem X01_ROUND_partial {src : Source} {m : MState} {sheet coord : Text} {b : Blanks} {a : Bool} {f : Text}
    {x y : Expr} (C : CallAt src m sheet coord b a f [x, y]) (hf : funcIndex (callName f) = some (idOf "ROUND"))
    (z d : Int) (hd : d.natAbs ≤ 400) (hx : leafVal src sheet x = .s (.num (.int z)))
    (hy : leafVal src sheet y = .s (.num (.int d))) (v : Model.C16.RVal)
    (hv : Model.C16.ROUND ⟨decide (z < 0), z.natAbs, 0⟩ (.int d) = .val v) (fuel : Nat) :
    fresh libSem (fuel + 2) m (sheet ++ '!' :: coord)
      = .val (.s (.num (.flt (Spec.C16.round (Model.C16.Dec.toRat ⟨decide (z < 0), z.natAbs, 0⟩) d)))) := by
  have happ := ROUND_app_int x01Ext z d hd v hv
  rw [Props.C16.ROUND_refines _ _ v hv] at happ
  exact call_cell_val C (strict_ROUND hf) fuel _ (by simp [hx, hy]) _ happ

theorem strict_DEC2BIN {f : Text} (h : funcIndex (callName f) = some (idOf "DEC2BIN")) :
    StrictFn f (idOf "DEC2BIN") fDEC2BIN 1 :=
  ⟨h, rfl, rfl, by decide, by decide, by decide⟩

/-- **`X01_DEC2BIN`** (C19 `impl_meets_spec`): `DEC2BIN(x)` over a whole number is what the ten-digit two's-complement
    statement demands: its text, or its error value. -/
theorem X01_DEC2BIN {src : Source} {m : MState} {sheet coord : Text} {b : Blanks} {a : Bool} {f : Text} {x : Expr}
    (C : CallAt src m sheet coord b a f [x]) (hf : funcIndex (callName f) = some (idOf "DEC2BIN"))
    (z : Int) (hx : leafVal src sheet x = .s (.num (.int z))) (fuel : Nat) :
    (∀ t, Spec.C19.want "DEC2BIN".toList (.num (.int z)) none = .val (.text t) →
      fresh libSem (fuel + 2) m (sheet ++ '!' :: coord) = .val (.s (.text t))) ∧
    (∀ c, Spec.C19.want "DEC2BIN".toList (.num (.int z)) none = .err c →
      fresh libSem (fuel + 2) m (sheet ++ '!' :: coord) = .val (.s (.err c))) := by
  have hmeets := Props.C19.impl_meets_spec "DEC2BIN".toList (.num (.int z)) none
  constructor
  · intro t ht
    rw [ht] at hmeets
    exact call_cell_val C (strict_DEC2BIN hf) fuel _ (by simp [hx]) _ (DEC2BIN_app x01Ext z t hmeets)
  · intro c hc
    rw [hc] at hmeets
    exact call_cell_val C (strict_DEC2BIN hf) fuel _ (by simp [hx]) _ (DEC2BIN_app_err x01Ext z c hmeets)

theorem strict_SUM {f : Text} (h : funcIndex (callName f) = some (idOf "SUM")) : StrictFn f (idOf "SUM") fSUM 1 :=
  ⟨h, rfl, rfl, by decide, by decide, by decide⟩

/-- **`X01_SUM_range_partial`** (C14 `aggregate_refines`): `SUM(rectangle)` over constants of the aggregate domain
    (numbers, empty cells, non-numeric texts) is the sum of the numbers addressed.  (Partial: rectangles of at most
    MAX_EMPTY cells — `RefsConst`.) -/
theorem X01_SUM_range_partial {src : Source} {m : MState} {sheet coord : Text} {b : Blanks} {a : Bool} {f : Text}
    {x : Expr} (C : CallAt src m sheet coord b a f [x]) (hf : funcIndex (callName f) = some (idOf "SUM"))
    (rows : List (List S)) (hx : leafVal src sheet x = .arr rows)
    (hdom : Lemmas.C14.ArgOK (Lemmas.C14.InDomB x01Ext) (.range rows)) (fuel : Nat) :
    ∃ k : Num, fresh libSem (fuel + 2) m (sheet ++ '!' :: coord) = .val (.s (.num k)) ∧
      k.toRat = Spec.C14.sum rows.flatten := by
  have href := (Props.C14.aggregate_refines (ext := x01Ext) (as := [.range rows])
    (by intro a ha; simp only [List.mem_singleton] at ha; subst ha; exact hdom)).1
  simp only [List.map_cons, List.map_nil, Lemmas.C14.conc] at href
  cases hS : Model.C14.SUM x01Ext [.arr (rows.map fun r => r.map Model.C14.typedPy)] with
  | error c => rw [hS] at href; simp [Except.map] at href
  | ok k =>
    rw [hS] at href
    refine ⟨k, call_cell_val C (strict_SUM hf) fuel _ (by simp [hx]) _ (SUM_app_range x01Ext rows k hS), ?_⟩
    simpa [Except.map, Spec.C14.addressed, Spec.C14.A.cells] using href

theorem strict_COUNTIF {f : Text} (h : funcIndex (callName f) = some (idOf "COUNTIF")) :
    StrictFn f (idOf "COUNTIF") fCOUNTIF 2 :=
  ⟨h, rfl, rfl, by decide, by decide, by decide⟩

/-- **`X01_COUNTIF_partial`** (C15 `countif_spec`): `COUNTIF(rectangle, "criterion")` is the number of cells for which
    the criterion holds.  (Partial: rectangles of at most MAX_EMPTY cells.) -/
theorem X01_COUNTIF_partial {src : Source} {m : MState} {sheet coord : Text} {b : Blanks} {a : Bool} {f : Text}
    {x y : Expr} (C : CallAt src m sheet coord b a f [x, y]) (hf : funcIndex (callName f) = some (idOf "COUNTIF"))
    (rows : List (List S)) (s : List Char) (hx : leafVal src sheet x = .arr rows)
    (hy : leafVal src sheet y = .s (.text s))
    (op : Spec.C15.Op) (k : Spec.C09.Cls) (hcrit : Spec.C15.critOfText s = some (op, k))
    (hdate : x01Ext.dateParse (Spec.C15.splitOp s).2 = none)
    (hcls : ∀ c ∈ rows.flatten, Spec.C09.cls c ≠ none) (fuel : Nat) :
    fresh libSem (fuel + 2) m (sheet ++ '!' :: coord)
      = .val (.s (.num (.int (Spec.C15.countif op k (rows.flatten.filterMap Spec.C09.cls))))) :=
  call_cell_val C (strict_COUNTIF hf) fuel _ (by simp [hx, hy]) _
    (COUNTIF_app x01Ext rows s _ (Props.C15.countif_spec x01Ext s op k hcrit hdate rows.flatten hcls))

theorem strict_VLOOKUP {f : Text} (h : funcIndex (callName f) = some (idOf "VLOOKUP")) :
    StrictFn f (idOf "VLOOKUP") fVLOOKUP 3 :=
  ⟨h, rfl, rfl, by decide, by decide, by decide⟩

/-- **`X01_VLOOKUP_partial`** (C15 `vlookup_spec`): `VLOOKUP(key, table, col)` over a classified key, a rectangular
    table of constants with classified key cells and a whole column index is the statement's exact lookup.
    (Partial: tables of at most MAX_EMPTY cells; the three-argument form.) -/
theorem X01_VLOOKUP_partial {src : Source} {m : MState} {sheet coord : Text} {b : Blanks} {a : Bool} {f : Text}
    {x y z : Expr} (C : CallAt src m sheet coord b a f [x, y, z])
    (hf : funcIndex (callName f) = some (idOf "VLOOKUP"))
    (key : S) (k : Spec.C09.Cls) (hk : Spec.C09.cls key = some k) (rows : List (List S)) (c : Int)
    (hx : leafVal src sheet x = .s key) (hy : leafVal src sheet y = .arr rows)
    (hz : leafVal src sheet z = .s (.num (.int c)))
    (sp : List (Spec.C09.Cls × List S)) (hkr : Lemmas.C15.KeyedRows rows sp) (w : Nat)
    (hw : ∀ row ∈ rows, row.length = w) (hne : rows ≠ []) (fuel : Nat) :
    fresh libSem (fuel + 2) m (sheet ++ '!' :: coord)
      = .val (.s (match Spec.C15.vlookup k sp w c with
                  | .value v => v
                  | .na => .err .na
                  | .colError => .err .value)) := by
  have hkey : ∀ e, key ≠ .err e := by
    intro e he; subst he; simp [Spec.C09.cls] at hk
  have hspec := Props.C15.vlookup_spec hk rows sp hkr w hw hne c
  refine call_cell_val C (strict_VLOOKUP hf) fuel _ (by simp [hx, hy, hz]) _ (VLOOKUP_app x01Ext key hkey rows c _ ?_)
  rw [hspec]
  cases Spec.C15.vlookup k sp w c <;> rfl

/-- **`X01_NPV`** (C20 `npv_def`): `NPV(r, c₁, …, cₙ)` over numbers, `n ≥ 1`, `r ≠ −1`, is `Σ cᵢ / (1+r)^i`. -/
theorem X01_NPV {src : Source} {m : MState} {sheet coord : Text} {b : Blanks} {a : Bool} {f : Text}
    {args : List Expr} (C : CallAt src m sheet coord b a f args) (hf : funcIndex (callName f) = some (idOf "NPV"))
    (r : Num) (cs : List Num) (hvals : args.map (leafVal src sheet) = .s (.num r) :: cs.map fun c => V.s (.num c))
    (hne : cs ≠ []) (hr : r.toRat ≠ -1) (fuel : Nat) :
    fresh libSem (fuel + 2) m (sheet ++ '!' :: coord)
      = .val (.s (.num (.flt (Spec.C20.npv r.toRat (cs.map Num.toRat))))) := by
  have hlen : args.length = cs.length + 1 := by
    have := congrArg List.length hvals
    simpa using this
  have har : arityCheck fNPV.params args.length = .ok := by
    rw [hlen]
    cases cs.length <;> rfl
  exact call_cell_val C ⟨hf, rfl, har, by decide, by decide, by decide⟩ fuel _ hvals _
    (NPV_app x01Ext r cs _ (Props.C20.npv_def r.toRat (cs.map Num.toRat) (by simpa using hne) hr))

theorem strict_serial {f : Text} (name : String) (h : funcIndex (callName f) = some (idOf name))
    (hfn : funcAt (idOf name) = some (fSerial name "date")) (hn : name.toList ≠ nameIF ∧ name.toList ≠ nameAND ∧
      name.toList ≠ nameOR) : StrictFn f (idOf name) (fSerial name "date") 1 :=
  ⟨h, hfn, rfl, hn.1, hn.2.1, hn.2.2⟩

/-- **`X01_DATE_inverse`** (C18 `date_inverse`, `year_spec`, `month_spec`, `day_spec`): the NESTED formula
    `DATE(YEAR(x), MONTH(y), DAY(z))` over (written or referenced) occurrences of one serial number `n` is the
    date `n`. -/
theorem X01_DATE_inverse {src : Source} {m : MState} {sheet coord : Text} (b : Blanks)
    (a0 a1 a2 a3 : Bool) (f0 f1 f2 f3 : Text) (x y z : Expr)
    (hwf : WF (.call a0 f0 [.call a1 f1 [x], .call a2 f2 [y], .call a3 f3 [z]]))
    (hl : LitsOK x ∧ LitsOK y ∧ LitsOK z) (hleaf : IsLeaf x = true ∧ IsLeaf y = true ∧ IsLeaf z = true)
    (H : FormulaAt src m sheet coord (render b (.call a0 f0 [.call a1 f1 [x], .call a2 f2 [y], .call a3 f3 [z]])))
    (hrefs : RefsConst src sheet x ∧ RefsConst src sheet y ∧ RefsConst src sheet z)
    (h0 : funcIndex (callName f0) = some (idOf "DATE")) (h1 : funcIndex (callName f1) = some (idOf "YEAR"))
    (h2 : funcIndex (callName f2) = some (idOf "MONTH")) (h3 : funcIndex (callName f3) = some (idOf "DAY"))
    (n : Int) (hn : Lemmas.C18Fn.IsSerial n) (hx : leafVal src sheet x = .s (.num (.int n)))
    (hy : leafVal src sheet y = .s (.num (.int n))) (hz : leafVal src sheet z = .s (.num (.int n))) (fuel : Nat) :
    fresh libSem (fuel + 2) m (sheet ++ '!' :: coord) = .val (.s (.date (n : Rat))) := by
  have hwx : WF x := hwf.2.1.2.1
  have hwy : WF y := hwf.2.2.1.2.1
  have hwz : WF z := hwf.2.2.2.1.2.1
  have hrc : RefsConst src sheet (.call a0 f0 [.call a1 f1 [x], .call a2 f2 [y], .call a3 f3 [z]]) := by
    simp only [RefsConst, RefsConstL, and_true]
    exact hrefs
  have ex : ExprVal libSem m sheet x (.s (.num (.int n))) := by
    rw [← hx]
    exact exprVal_leaf_src libSem _ hwf b H x (by intro r hr; simp [refsOf, refsOfL, hr]) hleaf.1 hwx hl.1 hrefs.1
  have ey : ExprVal libSem m sheet y (.s (.num (.int n))) := by
    rw [← hy]
    exact exprVal_leaf_src libSem _ hwf b H y (by intro r hr; simp [refsOf, refsOfL, hr]) hleaf.2.1 hwy hl.2.1 hrefs.2.1
  have ez : ExprVal libSem m sheet z (.s (.num (.int n))) := by
    rw [← hz]
    exact exprVal_leaf_src libSem _ hwf b H z (by intro r hr; simp [refsOf, refsOfL, hr]) hleaf.2.2 hwz hl.2.2 hrefs.2.2
  have eY := exprVal_call a1 f1 (ArgsVal.cons ex (ArgsVal.nil _ _ _))
    (strict_serial "YEAR" h1 rfl (by decide)) _ (YEAR_app x01Ext (.int n) _ (Lemmas.C18Fn.year_spec n hn))
  have eM := exprVal_call a2 f2 (ArgsVal.cons ey (ArgsVal.nil _ _ _))
    (strict_serial "MONTH" h2 rfl (by decide)) _ (MONTH_app x01Ext (.int n) _ (Lemmas.C18Fn.month_spec n hn))
  have eD := exprVal_call a3 f3 (ArgsVal.cons ez (ArgsVal.nil _ _ _))
    (strict_serial "DAY" h3 rfl (by decide)) _ (DAY_app x01Ext (.int n) _ (Lemmas.C18Fn.day_spec n hn))
  have hser : Model.C18.datetimeToNumber ⟨Lemmas.C18Fn.dayOf n, 0⟩ = (n : Rat) := by
    have h := Props.C18.date_inverse_serial n hn
    rw [Props.C18.date_inverse n hn] at h
    simpa [Lemmas.C18Fn.serialRes, Model.C18.Res.map] using h
  have eDATE := exprVal_call a0 f0 (ArgsVal.cons eY (ArgsVal.cons eM (ArgsVal.cons eD (ArgsVal.nil _ _ _))))
    (⟨h0, rfl, rfl, by decide, by decide, by decide⟩ : StrictFn f0 (idOf "DATE") fDATE 3) _
    (DATE_app x01Ext _ _ _ _ (Props.C18.date_inverse n hn))
  rw [hser] at eDATE
  exact (compile_nested_formula_partial libSem _ b hwf H hrc fuel).1 _ eDATE

/-! ### IF is lazy -/

/-- the `.iff` arm of the evaluator IS C10's `IF_` over the three sub-evaluations -/
theorem evalFx_iff_IF {σ : Type} (st : Store σ) (sem : Sem) (ce : Ctx σ → Addr → Ctx σ × Res) (c : Ctx σ)
    (cond t e : Fx) :
    evalFx st sem ce c (.iff cond t e)
      = Model.C10.IF_ sem.truth (fun s => evalFx st sem ce s cond) (fun s => evalFx st sem ce s t)
          (fun s => evalFx st sem ce s e) c := by
  rw [evalFx]
  simp only [Model.C10.IF_]
  rcases evalFx st sem ce c cond with ⟨c', r⟩
  cases r <;> rfl

/-- **`X01_IF_lazy_tree`** (C10 `if_lazy`, composed): in the tree `compile` makes of `IF(c, t, e)`, under `libSem`,
    the branch the condition does not select can be replaced by ANY tree — one that raises, closes a cycle, reads
    other cells — without changing the result or the evaluator's state. -/
theorem X01_IF_lazy_tree {σ : Type} (st : Store σ) (ce : Ctx σ → Addr → Ctx σ × Res) (c c1 : Ctx σ) (cond t e : Fx)
    (v : V) (hc : evalFx st libSem ce c cond = (c1, .val v)) :
    (Spec.C10.truthV v = .yes → ∀ e', evalFx st libSem ce c (.iff cond t e) = evalFx st libSem ce c (.iff cond t e')) ∧
    (Spec.C10.truthV v = .no → ∀ t', evalFx st libSem ce c (.iff cond t e) = evalFx st libSem ce c (.iff cond t' e)) := by
  have h := Props.C10.if_lazy (fun s => evalFx st libSem ce s cond) (fun s => evalFx st libSem ce s t)
    (fun s => evalFx st libSem ce s e) c c1 v hc
  refine ⟨fun hy e' => ?_, fun hn t' => ?_⟩
  · rw [evalFx_iff_IF, evalFx_iff_IF]; exact h.1 hy _
  · rw [evalFx_iff_IF, evalFx_iff_IF]; exact h.2.1 hn _

/-- `callFx` of IF with three arguments -/
theorem callFx_if3 (f : Text) (hf : callName f = nameIF) (c t e : Fx) : callFx f [c, t, e] = .iff c t e := by
  obtain ⟨i, fn, hi, hfi, _, _, _, h3, _⟩ := if_registered
  simp [callFx, hf, hi, hfi, h3]

/-- **`X01_IF_lazy_partial`**: the TEXT `IF(c, t, e)` over constants evaluates to the value of the selected branch —
    whatever the other branch is (any well-formed formula over constants: a call that raises, an unknown function, a
    wrong argument count) —, and to the value of the condition when that is an error value. -/
theorem X01_IF_lazy_partial (sem : Sem) {src : Source} {m : MState} {sheet coord : Text} (b : Blanks) (a : Bool)
    (f : Text) (c t e : Expr) (hf : callName f = nameIF) (hwf : WF (.call a f [c, t, e]))
    (H : FormulaAt src m sheet coord (render b (.call a f [c, t, e])))
    (hrefs : RefsConst src sheet (.call a f [c, t, e])) (vc : V) (hc : ExprVal sem m sheet c vc) (fuel : Nat) :
    (sem.truth vc = some true → ∀ vt, ExprVal sem m sheet t vt →
      fresh sem (fuel + 2) m (sheet ++ '!' :: coord) = .val vt) ∧
    (sem.truth vc = some false → ∀ ve, ExprVal sem m sheet e ve →
      fresh sem (fuel + 2) m (sheet ++ '!' :: coord) = .val ve) ∧
    (sem.truth vc = none → fresh sem (fuel + 2) m (sheet ++ '!' :: coord) = .val vc) := by
  obtain ⟨fx, hfx, hfresh, _⟩ := formula_cell_value _ hwf b H hrefs sem fuel
  obtain ⟨c', hc1, hc2⟩ := hc
  simp only [astOf, astsOf, toFx, toFxList, hc1] at hfx
  cases ht : toFx sheet (m.ranges.map (·.1)) (astOf t) with
  | error x => rw [ht] at hfx; simp [fnName] at hfx
  | ok t' =>
    rw [ht] at hfx
    cases he : toFx sheet (m.ranges.map (·.1)) (astOf e) with
    | error x => rw [he] at hfx; simp [fnName] at hfx
    | ok e' =>
      rw [he] at hfx
      simp only [fnName, Except.ok.injEq] at hfx
      rw [callFx_if3 f hf] at hfx
      subst hfx
      rw [hfresh]
      refine ⟨fun htr vt hvt => ?_, fun htr ve hve => ?_, fun htr => ?_⟩
      · obtain ⟨t'', h1, h2⟩ := hvt
        rw [ht] at h1; cases h1
        simp [pureVal, hc2, htr, h2, cellRes]
      · obtain ⟨e'', h1, h2⟩ := hve
        rw [he] at h1; cases h1
        simp [pureVal, hc2, htr, h2, cellRes]
      · simp [pureVal, hc2, htr, cellRes]

/-! ### non-vacuity of the transport theorems: concrete formula texts, in the kernel -/

/-- a workbook with a second sheet (quoted title in references), constants of several types, and one formula text
    for each transport theorem -/
def wbT : Source :=
  { cells := [("My Data!A1".toList, .const (.text "hello".toList)),
              ("Sheet1!A2".toList, .const (.num (.int 2))),
              ("Sheet1!A3".toList, .const (.num (.int 2500))),
              ("Sheet1!A4".toList, .const (.num (.int 5))),
              ("Sheet1!A5".toList, .const (.num (.int 44000))),
              ("Sheet1!A6".toList, .const (.num (.int (-3)))),
              ("Sheet1!C1".toList, .const (.num (.int 1))),
              ("Sheet1!D1".toList, .const (.text "x".toList)),
              ("Sheet1!C2".toList, .const (.num (.flt (5 / 2)))),
              ("Sheet1!E1".toList, .const (.num (.int 100))),
              ("Sheet1!E2".toList, .const (.num (.int 50))),
              ("Sheet1!F1".toList, .const (.text "a".toList)),
              ("Sheet1!G1".toList, .const (.num (.int 10))),
              ("Sheet1!F2".toList, .const (.text "b".toList)),
              ("Sheet1!G2".toList, .const (.num (.int 20))),
              ("Sheet1!B1".toList, .formula "=left('My Data'!$A$1,A2)".toList),
              ("Sheet1!B2".toList, .formula "=ROUND(A3,A6)".toList),
              ("Sheet1!B3".toList, .formula "=_xlfn.DEC2BIN(A4)".toList),
              ("Sheet1!B4".toList, .formula "=SUM(C1:D2)".toList),
              ("Sheet1!B5".toList, .formula "=COUNTIF(C1:D2,\">1\")".toList),
              ("Sheet1!B6".toList, .formula "=NPV(0.25,E1,E2)".toList),
              ("Sheet1!B7".toList, .formula "=DATE(YEAR(A5),MONTH(A5),DAY(A5))".toList),
              ("Sheet1!B8".toList, .formula "=IF(TRUE,A2,NOSUCH(1,2))".toList),
              ("Sheet1!B9".toList, .formula "=VLOOKUP(\"b\",F1:G2,2)".toList),
              ("Sheet1!B10".toList, .formula "=@LEFT(\"abc\",2)".toList),
              ("Sheet1!B11".toList, .formula "= Left( 'My Data'!$A$1 ,\n A2 )".toList)] }

def evalAll (src : Source) (as : List String) : Option (List Res) :=
  match compile src with
  | .ok m => some (as.map fun a => fresh libSem 50 m a.toList)
  | .error _ => none

/-- every formula text of `wbT`, through tokenizer, parser, `compile`, evaluator and library, in the kernel:
    `X01_LEFT` (B1, B11), `X01_ROUND_partial` (B2), `X01_DEC2BIN` (B3), `X01_SUM_range_partial` (B4),
    `X01_COUNTIF_partial` (B5), `X01_NPV` (B6), `X01_DATE_inverse` (B7), `X01_IF_lazy_partial` (B8: the unselected
    branch calls an unknown function), `X01_VLOOKUP_partial` (B9), `compile_call_formula` (B10) -/
example : evalAll wbT ["Sheet1!B1", "Sheet1!B2", "Sheet1!B3", "Sheet1!B4", "Sheet1!B5", "Sheet1!B6", "Sheet1!B7",
      "Sheet1!B8", "Sheet1!B9", "Sheet1!B10", "Sheet1!B11"]
  = some [.val (.s (.text "he".toList)), .val (.s (.num (.flt 3000))), .val (.s (.text "101".toList)),
          .val (.s (.num (.flt (7 / 2)))), .val (.s (.num (.int 1))), .val (.s (.num (.flt 112))),
          .val (.s (.date 44000)), .val (.s (.num (.int 2))), .val (.s (.num (.int 20))),
          .val (.s (.text "ab".toList)), .val (.s (.text "he".toList))] := by decide +kernel

example : (compile wbT).toOption.isSome = true := by decide +kernel

/-- `=left('My Data'!$A$1,A2)` -/
def eB1 : Expr := .call false "left".toList
  [.ref { sheet := .quoted "My Data".toList, first := { colAbs := true, col := ['A'], rowAbs := true, row := [1] } },
   .ref { first := { col := ['A'], row := [2] } }]

example : render Blanks.none eB1 = "=left('My Data'!$A$1,A2)".toList := by decide

theorem cellAt_wbT {m : MState} (hc : compile wbT = .ok m) (coord : String) (text : Text)
    (h : srcLookup wbT.defaultSheet ("Sheet1".toList ++ '!' :: coord.toList) wbT.cells = some (.formula text))
    (hcoord : coord.toList.contains '!' = false) : FormulaAt wbT m "Sheet1".toList coord.toList text :=
  ⟨hc, rfl, by decide, hcoord, h⟩

/-- **`X01_LEFT` instantiated**: its hypotheses hold for the text of `wbT`'s B1, and it yields the value -/
example (m : MState) (hc : compile wbT = .ok m) (fuel : Nat) :
    fresh libSem (fuel + 2) m "Sheet1!B1".toList = .val (.s (.text "he".toList)) := by
  have h1 : srcLookup wbT.defaultSheet (Model.C03.fullAddress
      (Ref.denoted { sheet := .quoted "My Data".toList, first := { colAbs := true, col := ['A'], rowAbs := true, row := [1] } })
      "Sheet1".toList) wbT.cells = some (.const (.text "hello".toList)) := by decide +kernel
  have h2 : srcLookup wbT.defaultSheet (Model.C03.fullAddress
      (Ref.denoted { first := { col := ['A'], row := [2] } }) "Sheet1".toList) wbT.cells
      = some (.const (.num (.int 2))) := by decide +kernel
  have C : CallAt wbT m "Sheet1".toList "B1".toList Blanks.none false "left".toList
      [.ref { sheet := .quoted "My Data".toList, first := { colAbs := true, col := ['A'], rowAbs := true, row := [1] } },
       .ref { first := { col := ['A'], row := [2] } }] :=
    { wf := by
        refine ⟨by unfold NameWF; decide, ?_⟩
        simp [WF, WFs, Ref.WF, SheetQ.WF, Cell.WF, AllDigits]
      lits := by simp [LitsOK, LitsOKs]
      leaves := by simp [IsLeaf]
      cell := cellAt_wbT hc "B1" _ (by decide +kernel) (by decide)
      consts := by
        simp only [RefsConst, RefsConstL, RefConst, ConstSrc, h1, h2, and_self] }
  obtain ⟨r, hr, hspec⟩ := X01_LEFT C (by decide +kernel) "hello".toList (.int 2)
    (by simp only [leafVal, refVal, srcCellVal, h1]) (by simp only [leafVal, refVal, srcCellVal, h2]) fuel
  have : Spec.C17.left "hello".toList (Model.C17.pyInt (.int 2)) = some "he".toList := by decide
  rw [this] at hspec
  subst hspec
  exact hr

/-- a Boolean form of `ConstSrc`, to decide it on concrete sources -/
def constSrcB (src : Source) (a : Text) : Bool :=
  match srcLookup src.defaultSheet a src.cells with
  | some (.formula _) => false
  | _ => true

theorem constSrc_of_b {src : Source} {a : Text} (h : constSrcB src a = true) : ConstSrc src a := by
  unfold constSrcB at h
  unfold ConstSrc
  generalize srcLookup src.defaultSheet a src.cells = o at h ⊢
  rcases o with _ | (v | t) <;> simp_all

/-- **`X01_SUM_range_partial` instantiated** on `=SUM(C1:D2)` (numbers, a text, a cell the source does not mention) -/
example (m : MState) (hc : compile wbT = .ok m) (fuel : Nat) :
    ∃ k : Num, fresh libSem (fuel + 2) m "Sheet1!B4".toList = .val (.s (.num k)) ∧ k.toRat = 7 / 2 := by
  have hres : Model.C03.resolveRanges (Model.C03.fullAddress
      (Ref.denoted { first := { col := ['C'], row := [1] }, last := some { col := ['D'], row := [2] } })
      "Sheet1".toList) = .val ("Sheet1".toList, [["Sheet1!C1".toList, "Sheet1!D1".toList],
        ["Sheet1!C2".toList, "Sheet1!D2".toList]]) := by decide +kernel
  have C : CallAt wbT m "Sheet1".toList "B4".toList Blanks.none false "SUM".toList
      [.ref { first := { col := ['C'], row := [1] }, last := some { col := ['D'], row := [2] } }] :=
    { wf := by
        refine ⟨by unfold NameWF; decide, ?_⟩
        simp [WF, WFs, Ref.WF, SheetQ.WF, Cell.WF, AllDigits]
      lits := by simp [LitsOK, LitsOKs]
      leaves := by simp [IsLeaf]
      cell := cellAt_wbT hc "B4" _ (by decide +kernel) (by decide)
      consts := by
        simp only [RefsConst, RefsConstL, RefConst, and_true]
        intro s mat h
        rw [hres] at h
        cases h
        refine ⟨fun a ha => constSrc_of_b ?_, by decide⟩
        have hall : (List.flatten [["Sheet1!C1".toList, "Sheet1!D1".toList],
            ["Sheet1!C2".toList, "Sheet1!D2".toList]]).all (constSrcB wbT) = true := by decide +kernel
        exact List.all_eq_true.mp hall a ha }
  obtain ⟨k, hk, hsum⟩ := X01_SUM_range_partial C (by decide +kernel)
    [[.num (.int 1), .text "x".toList], [.num (.flt (5 / 2)), .blank]] (by decide +kernel)
    (by
      refine ⟨⟨2, by simp⟩, ?_⟩
      intro r hr x hx
      simp only [List.mem_cons, List.not_mem_nil, or_false] at hr
      rcases hr with rfl | rfl <;> simp only [List.mem_cons, List.not_mem_nil, or_false] at hx <;>
        rcases hx with rfl | rfl
      · exact Or.inr trivial
      · exact Or.inr (by show textNumber x01Ext "x".toList = NumR.xl Code.value; decide +kernel)
      · exact Or.inr trivial
      · exact Or.inl rfl) fuel
  refine ⟨k, hk, ?_⟩
  rw [hsum]
  decide +kernel

/-- **`X01_DATE_inverse` instantiated** on the nested `=DATE(YEAR(A5),MONTH(A5),DAY(A5))` -/
example (m : MState) (hc : compile wbT = .ok m) (fuel : Nat) :
    fresh libSem (fuel + 2) m "Sheet1!B7".toList = .val (.s (.date 44000)) := by
  have h5 : srcLookup wbT.defaultSheet (Model.C03.fullAddress
      (Ref.denoted { first := { col := ['A'], row := [5] } }) "Sheet1".toList) wbT.cells
      = some (.const (.num (.int 44000))) := by decide +kernel
  have hrc : RefsConst wbT "Sheet1".toList (.ref { first := { col := ['A'], row := [5] } }) := by
    simp only [RefsConst, RefConst, ConstSrc, h5]
  have hv : leafVal wbT "Sheet1".toList (.ref { first := { col := ['A'], row := [5] } }) = .s (.num (.int 44000)) := by
    simp only [leafVal, refVal, srcCellVal, h5]
  have := X01_DATE_inverse (src := wbT) (m := m) (sheet := "Sheet1".toList) (coord := "B7".toList) Blanks.none
    false false false false "DATE".toList "YEAR".toList "MONTH".toList "DAY".toList
    (.ref { first := { col := ['A'], row := [5] } }) (.ref { first := { col := ['A'], row := [5] } })
    (.ref { first := { col := ['A'], row := [5] } })
    (by
      refine ⟨by unfold NameWF; decide, ⟨by unfold NameWF; decide, ?_⟩, ⟨by unfold NameWF; decide, ?_⟩,
        ⟨by unfold NameWF; decide, ?_⟩, trivial⟩ <;>
      simp [WF, WFs, Ref.WF, SheetQ.WF, Cell.WF, AllDigits])
    (by simp [LitsOK]) (by simp [IsLeaf]) (cellAt_wbT hc "B7" _ (by decide +kernel) (by decide))
    ⟨hrc, hrc, hrc⟩ (by decide +kernel) (by decide +kernel) (by decide +kernel) (by decide +kernel)
    44000 (by decide) hv hv hv fuel
  simpa using this

/-- **`X01_IF_lazy_partial` instantiated** on `=IF(TRUE,A2,NOSUCH(1,2))`: the unselected branch calls an unknown
    function (a KeyError if it were evaluated) -/
example (m : MState) (hc : compile wbT = .ok m) (fuel : Nat) :
    fresh libSem (fuel + 2) m "Sheet1!B8".toList = .val (.s (.num (.int 2))) := by
  have h2 : srcLookup wbT.defaultSheet (Model.C03.fullAddress
      (Ref.denoted { first := { col := ['A'], row := [2] } }) "Sheet1".toList) wbT.cells
      = some (.const (.num (.int 2))) := by decide +kernel
  have hwf : WF (.call false "IF".toList [.bool true, .ref { first := { col := ['A'], row := [2] } },
      .call false "NOSUCH".toList [.num { ip := [1] } false, .num { ip := [2] } false]]) := by
    refine ⟨by unfold NameWF; decide, trivial, ?_, ⟨by unfold NameWF; decide, ?_⟩, trivial⟩ <;>
    simp [WF, WFs, Ref.WF, SheetQ.WF, Cell.WF, AllDigits, NumLit.WF, NumLit.fdigits]
  have H := cellAt_wbT hc "B8" (render Blanks.none (.call false "IF".toList [.bool true,
      .ref { first := { col := ['A'], row := [2] } },
      .call false "NOSUCH".toList [.num { ip := [1] } false, .num { ip := [2] } false]])) (by decide +kernel) (by decide)
  have hrc : RefsConst wbT "Sheet1".toList (.call false "IF".toList [.bool true,
      .ref { first := { col := ['A'], row := [2] } },
      .call false "NOSUCH".toList [.num { ip := [1] } false, .num { ip := [2] } false]]) := by
    simp only [RefsConst, RefsConstL, RefConst, ConstSrc, h2, and_self]
  have hcond : ExprVal libSem m "Sheet1".toList (.bool true) (.s (.bool true)) :=
    exprVal_leaf_src libSem _ hwf Blanks.none H (.bool true) (by simp [refsOf]) rfl trivial trivial trivial
  have hthen : ExprVal libSem m "Sheet1".toList (.ref { first := { col := ['A'], row := [2] } }) (.s (.num (.int 2))) := by
    have := exprVal_leaf_src libSem _ hwf Blanks.none H (.ref { first := { col := ['A'], row := [2] } })
      (by intro r hr; simpa [refsOf, refsOfL] using hr) rfl
      (by simp [WF, Ref.WF, SheetQ.WF, Cell.WF, AllDigits]) trivial
      (by simp only [RefsConst, RefConst, ConstSrc, h2])
    simpa only [leafVal, refVal, srcCellVal, h2] using this
  exact (X01_IF_lazy_partial libSem Blanks.none false "IF".toList _ _ _ (by decide +kernel) hwf H hrc _ hcond fuel).1
    (by rfl) _ hthen

/-- **`compile_call_formula` instantiated** on `=@LEFT("abc",2)` (written arguments only; a leading `@`) -/
example (m : MState) (hc : compile wbT = .ok m) (fuel : Nat) :
    fresh libSem (fuel + 2) m "Sheet1!B10".toList
      = cellRes "Sheet1!B10".toList 15 (resOfAppR (libSem.app (idOf "LEFT") [.s (.text "abc".toList), .s (.num (.int 2))])) := by
  have := (compile_call_formula libSem (src := wbT) (m := m) (sheet := "Sheet1".toList) (coord := "B10".toList)
    Blanks.none true "LEFT".toList [.str "abc".toList, .num { ip := [2] } false]
    (by
      refine ⟨by unfold NameWF; decide, trivial, ?_, trivial⟩
      simp [WF, NumLit.WF, NumLit.fdigits, AllDigits])
    (by simp only [LitsOK, LitsOKs, and_true, true_and]; unfold Lemmas.C01.LitFinite; decide +kernel)
    (by simp [IsLeaf]) (cellAt_wbT hc "B10" _ (by decide +kernel) (by decide))
    (by intro r hr; simp [refsOfL, refsOf] at hr) (strict_LEFT (by decide +kernel)) fuel).1
  refine this.trans ?_
  have hlen : (render Blanks.none (.call true "LEFT".toList [.str "abc".toList, .num { ip := [2] } false])).length = 15 := by
    decide
  have hv : leafVal wbT "Sheet1".toList (.num { ip := [2] } false) = .s (.num (.int 2)) := by decide +kernel
  simp only [List.map_cons, List.map_nil, hlen, leafVal]
  rfl

/-- after a history — evaluate B1, then `set_cell_value('Sheet1!A2', 3)` — B1 is LEFT of the CURRENT inputs
    (`compile_call_formula_partial`, second part) -/
example : (match compile wbT with
    | .ok m => some (evalAfter libSem 50 m [.eval "Sheet1!B1".toList, .set "Sheet1!A2".toList (.s (.num (.int 3)))]
        "Sheet1!B1".toList)
    | .error _ => none) = some (.val (.s (.text "hel".toList))) := by decide +kernel

end XlVerif.Props.X01
