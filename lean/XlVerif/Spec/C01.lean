/-
  XlVerif.Spec.C01 — reference semantics of operator formulas, written from the statement of property
  C01: the sub-grammar of `Spec.C02.Expr` built from numeric literals (plain, decimal, scientific,
  percent), cell references, parentheses, unary minus and the twelve binary operators, and the value
  `denote e env` such a formula has under Excel's grammar.  The grammar (`Spec.C02.WF`) carries the
  precedence: unary minus binds tightest, then `%` (part of the literal), `^`, `* /`, `+ -`, `&`, the
  comparisons; every binary operator associates to the left.  Imports neither `Model` nor `Gen`.

  Where the statement is silent `denote` answers `undef` and the input is outside the property's domain:
  the text form of a number that is not an integer by construction (`&` after a division, of a decimal
  literal …), the text form of a boolean, a non-integral exponent (irrational results), arithmetic on
  a text that is not a plain decimal integer (Excel and the library read `1-2` as a date).
-/
import XlVerif.Spec.C02
namespace XlVerif.Spec.C01
open XlVerif XlVerif.Spec.C02

/-- the operator sub-grammar of C01: numeric literals, plain cell references, unary minus, the binary
    operators, parentheses -/
def inC01 : Expr → Bool
  | .num _ _ => true
  | .ref r => (match r.sheet, r.last with | .none, none => true | _, _ => false)
  | .neg e => inC01 e
  | .bin _ l r => inC01 l && inC01 r
  | .paren e => inC01 e
  | _ => false

/-- the address of a cell: its coordinates without `$` -/
def cellAddr (c : Cell) : List Char := c.col ++ c.row.map digitChar

/-- cell values: address ↦ number -/
abbrev Env := List Char → Rat

/-- what a formula evaluates to -/
inductive Res
  | num (q : Rat) | text (s : List Char) | bool (b : Bool) | err (c : Code)
  | undef          -- the statement does not say (outside the domain)
  deriving DecidableEq, Repr, Inhabited

/-- exponent of a literal as an integer -/
def expInt : Option (Bool × List Nat) → Int
  | none => 0
  | some (neg, ds) => if neg then -(digitsVal ds : Int) else (digitsVal ds : Int)

/-- the number a literal denotes: digits · 10^(exponent − number of fraction digits) -/
def litValue (n : NumLit) : Rat :=
  ((digitsVal (n.ip ++ n.fdigits) : Nat) : Rat) * (10 : Rat) ^ (expInt n.exp - (n.fdigits.length : Int))

/-- decimal text of an integer -/
def intText (z : Int) : List Char := (toString z).toList

def isDigitCh (c : Char) : Bool := '0' ≤ c && c ≤ '9'

/-- split off a leading minus sign -/
def stripMinus : List Char → Bool × List Char
  | '-' :: r => (true, r)
  | r => (false, r)

/-- the integer a text of the form `-?digits+` denotes -/
def intOfText (s : List Char) : Option Int :=
  let body := (stripMinus s).2
  if body.isEmpty || !body.all isDigitCh then none
  else
    let v : Nat := body.foldl (fun a c => a * 10 + (c.toNat - 48)) 0
    some (if (stripMinus s).1 then -(v : Int) else (v : Int))

/-- an operand of an arithmetic operator -/
inductive Coerced | num (q : Rat) | err (c : Code) | undef

/-- Excel's coercion to a number: TRUE/FALSE are 1/0, a text that is a decimal integer is that integer -/
def toNum : Res → Coerced
  | .num q => .num q
  | .bool b => .num (if b then 1 else 0)
  | .text s => (match intOfText s with | some z => .num (z : Rat) | none => .undef)
  | .err c => .err c
  | .undef => .undef

/-- a binary arithmetic operator: the left operand's error first, then the right one's -/
def arith2 (f : Rat → Rat → Res) (l r : Res) : Res :=
  match toNum l, toNum r with
  | .undef, _ => .undef
  | _, .undef => .undef
  | .err c, _ => .err c
  | _, .err c => .err c
  | .num a, .num b => f a b

def divide (a b : Rat) : Res := if b = 0 then .err .div0 else .num (a / b)

/-- `a ^ b` for an integral exponent; 0 to a negative power is #DIV/0!.  `0 ^ 0` is left open (Excel
    answers #NUM!, the usual convention and the library's POWER say 1; property C16 owns that choice). -/
def power (a b : Rat) : Res :=
  if b.den ≠ 1 then .undef
  else if a = 0 ∧ b = 0 then .undef
  else if a = 0 ∧ b < 0 then .err .div0
  else .num (a ^ b.num)

/-- the value of an expression that is an integer by construction (integer literals and cells,
    unary minus, `+ - *`, `^` with a non-negative exponent); its text form is unambiguous -/
def exactInt (env : Env) : Expr → Option Int
  | .num n false => if n.fp.isNone && n.exp.isNone then some (digitsVal n.ip : Int) else none
  | .ref r => let q := env (cellAddr r.first); if q.den = 1 then some q.num else none
  | .neg e => (exactInt env e).map fun z => -z
  | .paren e => exactInt env e
  | .bin o l r =>
    (match exactInt env l, exactInt env r with
     | some a, some b =>
       (match o with
        | .add => some (a + b) | .sub => some (a - b) | .mul => some (a * b)
        | .pow => if 0 ≤ b then some (a ^ b.toNat) else none
        | _ => none)
     | _, _ => none)
  | _ => none

/-- text form of an operand of `&` -/
inductive CatArg | text (s : List Char) | err (c : Code) | undef

def catArg (exact : Option Int) (v : Res) : CatArg :=
  match exact with
  | some z => .text (intText z)
  | none =>
    match v with
    | .text s => .text s
    | .err c => .err c
    | _ => .undef

def concat (l r : CatArg) : Res :=
  match l, r with
  | .undef, _ => .undef
  | _, .undef => .undef
  | .err c, _ => .err c
  | _, .err c => .err c
  | .text a, .text b => .text (a ++ b)

/-! ### Excel's total order: numbers < texts < booleans -/

def upperAscii (c : Char) : Char := if 'a' ≤ c ∧ c ≤ 'z' then Char.ofNat (c.toNat - 32) else c

inductive Payload | n (q : Rat) | t (s : List Char)

def key : Res → Option (Nat × Payload)
  | .num q => some (0, .n q)
  | .text s => some (1, .t (s.map upperAscii))
  | .bool b => some (2, .n (if b then 1 else 0))
  | _ => none

def payloadLt : Payload → Payload → Bool
  | .n a, .n b => a < b
  | .t a, .t b => a < b
  | _, _ => false

def payloadEq : Payload → Payload → Bool
  | .n a, .n b => a = b
  | .t a, .t b => a = b
  | _, _ => false

def keyLt (a b : Nat × Payload) : Bool := a.1 < b.1 || (a.1 = b.1 && payloadLt a.2 b.2)
def keyEq (a b : Nat × Payload) : Bool := a.1 = b.1 && payloadEq a.2 b.2

def compare (o : BinOp) (l r : Res) : Res :=
  match l, r with
  | .undef, _ => .undef
  | _, .undef => .undef
  | .err c, _ => .err c
  | _, .err c => .err c
  | l, r =>
    match key l, key r with
    | some a, some b =>
      (match o with
       | .eq => .bool (keyEq a b)
       | .ne => .bool (!keyEq a b)
       | .lt => .bool (keyLt a b)
       | .gt => .bool (keyLt b a)
       | .le => .bool (keyEq a b || keyLt a b)
       | .ge => .bool (keyEq a b || keyLt b a)
       | _ => .undef)
    | _, _ => .undef

/-- the value of an operator formula -/
def denote (env : Env) : Expr → Res
  | .num n false => .num (litValue n)
  | .num n true => .num (litValue n / 100)
  | .ref r => (match r.sheet, r.last with | .none, none => .num (env (cellAddr r.first)) | _, _ => .undef)
  | .paren e => denote env e
  | .neg e =>
    (match toNum (denote env e) with
     | .num q => .num (-q)
     | .err c => .err c
     | .undef => .undef)
  | .bin o l r =>
    let vl := denote env l
    let vr := denote env r
    (match o with
     | .add => arith2 (fun a b => .num (a + b)) vl vr
     | .sub => arith2 (fun a b => .num (a - b)) vl vr
     | .mul => arith2 (fun a b => .num (a * b)) vl vr
     | .div => arith2 divide vl vr
     | .pow => arith2 power vl vr
     | .cat => concat (catArg (exactInt env l) vl) (catArg (exactInt env r) vr)
     | o => compare o vl vr)
  | _ => .undef

/-! ### redundant parentheses -/

mutual
/-- the expression without its written parentheses (the tree they group is unchanged) -/
def eraseParens : Expr → Expr
  | .paren e => eraseParens e
  | .neg e => .neg (eraseParens e)
  | .bin o l r => .bin o (eraseParens l) (eraseParens r)
  | .call a f args => .call a f (eraseParensArgs args)
  | e => e
def eraseParensArgs : List Expr → List Expr
  | [] => []
  | a :: as => eraseParens a :: eraseParensArgs as
end

end XlVerif.Spec.C01
