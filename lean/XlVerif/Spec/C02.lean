/-
  XlVerif.Spec.C02 — the grammar of well-formed formulas *as Excel stores them*, their concrete
  renderings (blank placement) and the parse tree each one denotes.  Written from the statement of
  property C02; imports neither `Model` nor `Gen`.

  * `Expr`        abstract syntax: one constructor per written construct; `paren` nodes are the written
                  parentheses (necessary or redundant ones alike).  Numeric literals are a superset of
                  what Excel stores: any decimal numeral (`12`, `1.5`, `5.`, `.5`) with an optional
                  exponent `E±digits` on any such mantissa (`80E-3`, not only Excel's `8E-2`).
  * `WF`          well-formedness: lexical shape of the atoms and the places where parentheses are
                  *required* (operand of a tighter operator, right operand of an equal-precedence operator,
                  operand of a unary minus).
  * `render b e`  the text: a leading `=` and, at every token boundary the statement allows, the run
                  of blanks/newlines chosen by the oracle `b` (never between a function name and its `(`,
                  never inside a literal or reference, never between two operands — Excel gives a blank
                  there another meaning).
  * `treeOf e`    the tree the text denotes: one node per written construct (parentheses leave none).
-/
import XlVerif.Base
namespace XlVerif.Spec.C02
open XlVerif

/-! ### operators -/

/-- the twelve binary operators -/
inductive BinOp | pow | mul | div | add | sub | cat | eq | ne | lt | gt | le | ge
  deriving DecidableEq, Repr, Inhabited

def BinOp.sym : BinOp → List Char
  | .pow => ['^'] | .mul => ['*'] | .div => ['/'] | .add => ['+'] | .sub => ['-'] | .cat => ['&']
  | .eq => ['='] | .ne => ['<', '>'] | .lt => ['<'] | .gt => ['>'] | .le => ['<', '='] | .ge => ['>', '=']

/-- Excel's binding strength: `^` 5, `* /` 4, `+ -` 3, `&` 2, comparisons 1 (unary minus 7, `%` 6) -/
def BinOp.prec : BinOp → Nat
  | .pow => 5 | .mul => 4 | .div => 4 | .add => 3 | .sub => 3 | .cat => 2
  | .eq => 1 | .ne => 1 | .lt => 1 | .gt => 1 | .le => 1 | .ge => 1

def BinOp.all : List BinOp := [.pow, .mul, .div, .add, .sub, .cat, .eq, .ne, .lt, .gt, .le, .ge]

/-- binding strength of the unary minus -/
def negPrec : Nat := 7

/-! ### literals and references -/

def digitChar (d : Nat) : Char := Char.ofNat (48 + d)

def digitsVal (ds : List Nat) : Nat := ds.foldl (fun a d => a * 10 + d) 0

def AllDigits (ds : List Nat) : Prop := ∀ d ∈ ds, d < 10

/-- a numeric literal: a decimal numeral `digits`, `digits.digits`, `digits.` or `.digits`, optionally
    followed by an exponent `E±digits`.  Excel itself stores only `digits`, `digits.digits` and the
    normalised scientific form `d(.digits)?E±digits`; the other spellings are what users (and programs
    calling the formula reader) write, and the grammar covers them too.
    `fp = none`: no point; `fp = some []`: a point without fraction digits (`5.`); `ip = []`: `.5` -/
structure NumLit where
  ip : List Nat
  fp : Option (List Nat) := none
  exp : Option (Bool × List Nat) := none      -- (negative exponent?, exponent digits)
  deriving Repr, DecidableEq

def NumLit.text (n : NumLit) : List Char :=
  n.ip.map digitChar ++
  (match n.fp with | none => [] | some f => '.' :: f.map digitChar) ++
  (match n.exp with
   | none => []
   | some (neg, ds) => 'E' :: (if neg then '-' else '+') :: ds.map digitChar)

/-- fraction digits -/
def NumLit.fdigits (n : NumLit) : List Nat := match n.fp with | none => [] | some f => f

/-- at least one mantissa digit (before or after the point), only digits, and a non-empty exponent
    digit run where an exponent is written -/
def NumLit.WF (n : NumLit) : Prop :=
  (n.ip ≠ [] ∨ n.fdigits ≠ []) ∧ AllDigits n.ip ∧
  (match n.fp with | none => True | some f => AllDigits f) ∧
  (match n.exp with
   | none => True
   | some (_, ds) => ds ≠ [] ∧ AllDigits ds)

/-- the number a literal without exponent denotes -/
def NumLit.value (n : NumLit) : Rat :=
  ((digitsVal (n.ip ++ n.fdigits) : Nat) : Rat) / (10 : Rat) ^ n.fdigits.length

/-- a literal that may carry a `%`: no exponent, and small enough to be a finite double -/
def NumLit.PctOK (n : NumLit) : Prop := n.exp = none ∧ n.ip.length ≤ 300

/-- a cell coordinate `$?LETTERS$?DIGITS` -/
structure Cell where
  colAbs : Bool := false
  col : List Char
  rowAbs : Bool := false
  row : List Nat
  deriving Repr, DecidableEq

def Cell.text (c : Cell) : List Char :=
  (if c.colAbs then ['$'] else []) ++ c.col ++ (if c.rowAbs then ['$'] else []) ++ c.row.map digitChar

def Cell.WF (c : Cell) : Prop :=
  c.col ≠ [] ∧ c.col.length ≤ 3 ∧ (∀ ch ∈ c.col, 'A' ≤ ch ∧ ch ≤ 'Z') ∧ c.row ≠ [] ∧ AllDigits c.row

/-- characters with a meaning of their own for the formula reader, plus `:` and `@`; a *name* (function
    name, unquoted sheet name) is any non-empty text free of them -/
def specialChars : List Char :=
  [' ', '\n', '"', '\'', '[', '#', '{', ';', '}', '+', '-', '*', '/', '^', '&', '=', '>', '<', '%',
   '(', ',', ')', ':', '@']

def nameCh (c : Char) : Bool := !specialChars.contains c

def NameWF (f : List Char) : Prop := f ≠ [] ∧ ∀ c ∈ f, nameCh c = true

/-- sheet qualifier: none, unquoted, or quoted (any characters; `'` is written doubled) -/
inductive SheetQ | none | plain (name : List Char) | quoted (name : List Char)
  deriving Repr, DecidableEq

/-- double every occurrence of the quote character `q` -/
def escape (q : Char) : List Char → List Char
  | [] => []
  | c :: cs => if c = q then q :: q :: escape q cs else c :: escape q cs

def SheetQ.text : SheetQ → List Char
  | .none => []
  | .plain n => n ++ ['!']
  | .quoted n => '\'' :: escape '\'' n ++ ['\'', '!']

/-- the sheet part of the reference as the tree carries it: the name itself, then `!` -/
def SheetQ.denoted : SheetQ → List Char
  | .none => []
  | .plain n => n ++ ['!']
  | .quoted n => n ++ ['!']

def SheetQ.WF : SheetQ → Prop
  | .none => True
  | .plain n => NameWF n
  | .quoted n => ':' ∉ n          -- Excel forbids `:` in sheet names

structure Ref where
  sheet : SheetQ := .none
  first : Cell
  last : Option Cell := none
  deriving Repr, DecidableEq

def Ref.coords (r : Ref) : List Char :=
  r.first.text ++ (match r.last with | none => [] | some c => ':' :: c.text)

def Ref.text (r : Ref) : List Char := r.sheet.text ++ r.coords
def Ref.denoted (r : Ref) : List Char := r.sheet.denoted ++ r.coords

def Ref.WF (r : Ref) : Prop :=
  r.sheet.WF ∧ r.first.WF ∧ (match r.last with | none => True | some c => c.WF)

/-! ### expressions -/

inductive Expr
  | num (n : NumLit) (pct : Bool)          -- numeric literal, optionally followed by `%`
  | str (s : List Char)                    -- string literal of arbitrary content
  | bool (b : Bool)
  | err (c : Code)
  | ref (r : Ref)
  | neg (e : Expr)
  | bin (o : BinOp) (l r : Expr)
  | paren (e : Expr)                       -- written parentheses
  | call (atSign : Bool) (f : List Char) (args : List Expr)   -- `atSign`: a leading `@` is written
  deriving Repr, Inhabited

/-- binding strength of the outermost construct -/
def Expr.level : Expr → Nat
  | .neg _ => negPrec
  | .bin o _ _ => o.prec
  | _ => 9

mutual
/-- well-formedness: atoms are lexically valid and parentheses stand wherever Excel's grammar needs
    them: the left operand of `o` binds at least as tightly as `o`, the right operand strictly tighter
    (all binary operators associate to the left), the operand of a unary minus at least as tightly as a
    unary minus -/
def WF : Expr → Prop
  | .num n pct => n.WF ∧ (pct = true → n.PctOK)
  | .str _ => True
  | .bool _ => True
  | .err _ => True
  | .ref r => r.WF
  | .neg e => WF e ∧ negPrec ≤ e.level
  | .bin o l r => WF l ∧ WF r ∧ o.prec ≤ l.level ∧ o.prec < r.level
  | .paren e => WF e
  | .call _ f args => NameWF f ∧ WFs args
def WFs : List Expr → Prop
  | [] => True
  | a :: as => WF a ∧ WFs as
end

/-! ### rendering -/

/-- a run of blanks: `false` = space, `true` = newline -/
abbrev Run := List Bool

def sp (r : Run) : List Char := r.map fun n => if n then '\n' else ' '

/-- the blank oracle: for the node reached by `path` (child indices from the root), the run of blanks
    written in its `slot`-th blank position.  All slots are independent. -/
abbrev Blanks := List Nat → Nat → Run

def Blanks.sub (b : Blanks) (i : Nat) : Blanks := fun p k => b (i :: p) k
def Blanks.slot (b : Blanks) (k : Nat) : Run := b [] k

mutual
/-- the text of an expression (without the leading `=`) -/
def body : Blanks → Expr → List Char
  | _, .num n pct => n.text ++ (if pct then ['%'] else [])
  | _, .str s => '"' :: escape '"' s ++ ['"']
  | _, .bool b => if b then ['T', 'R', 'U', 'E'] else ['F', 'A', 'L', 'S', 'E']
  | _, .err c => c.text
  | _, .ref r => r.text
  | b, .neg e => '-' :: sp (b.slot 0) ++ body (b.sub 0) e
  | b, .bin o l r => body (b.sub 0) l ++ sp (b.slot 0) ++ o.sym ++ sp (b.slot 1) ++ body (b.sub 1) r
  | b, .paren e => '(' :: sp (b.slot 0) ++ body (b.sub 0) e ++ sp (b.slot 1) ++ [')']
  | b, .call atSign f args =>
      (if atSign then ['@'] else []) ++ f ++ '(' ::
        (match args with
         | [] => sp (b.slot 0) ++ [')']
         | _ :: _ => bodyArgs b 0 args ++ [')'])
/-- arguments `i, i+1, …`: each with a blank run before and after it, separated by commas -/
def bodyArgs : Blanks → Nat → List Expr → List Char
  | _, _, [] => []
  | b, i, a :: as =>
      sp (b.slot (2 * i)) ++ body (b.sub i) a ++ sp (b.slot (2 * i + 1)) ++
        (match as with
         | [] => []
         | _ :: _ => ',' :: bodyArgs b (i + 1) as)
end

/-- the formula text: `=`, leading blanks, the expression, trailing blanks -/
def render (b : Blanks) (e : Expr) : List Char :=
  '=' :: sp (b.slot 0) ++ body (b.sub 0) e ++ sp (b.slot 1)

/-- the same without the `=` (as the formula reader also accepts it) -/
def renderNoEq (b : Blanks) (e : Expr) : List Char :=
  sp (b.slot 0) ++ body (b.sub 0) e ++ sp (b.slot 1)

/-- no blanks anywhere -/
def Blanks.none : Blanks := fun _ _ => []

/-! ### the denoted tree -/

inductive Tree
  | num (lit : List Char)                  -- numeric literal, as written
  | pct (q : Rat)                          -- literal followed by `%`: its value / 100
  | str (s : List Char)
  | bool (b : Bool)
  | err (code : List Char)
  | ref (text : List Char)                 -- sheet name (unquoted) `!` coordinates, or just coordinates
  | unop (sym : List Char) (x : Tree)
  | binop (sym : List Char) (l r : Tree)
  | call (f : List Char) (args : List Tree)
  | unknown                                -- anything that is none of the above
  deriving Repr, Inhabited

mutual
def treeOf : Expr → Tree
  | .num n false => .num n.text
  | .num n true => .pct (n.value / 100)
  | .str s => .str s
  | .bool b => .bool b
  | .err c => .err c.text
  | .ref r => .ref r.denoted
  | .neg e => .unop ['-'] (treeOf e)
  | .bin o l r => .binop o.sym (treeOf l) (treeOf r)
  | .paren e => treeOf e
  | .call _ f args => .call f (treesOf args)
def treesOf : List Expr → List Tree
  | [] => []
  | a :: as => treeOf a :: treesOf as
end

mutual
/-- number of nodes -/
def Expr.size : Expr → Nat
  | .neg e => e.size + 1
  | .bin _ l r => l.size + r.size + 1
  | .paren e => e.size + 1
  | .call _ _ args => sizes args + 1
  | _ => 1
def sizes : List Expr → Nat
  | [] => 0
  | a :: as => a.size + sizes as
end

/-! ### a Boolean twin of `WF` (used by the driver; `wfB_iff` in `Props/C02.lean`) -/

def allDigitsB (ds : List Nat) : Bool := ds.all fun d => decide (d < 10)

def NumLit.wfB (n : NumLit) : Bool :=
  (!n.ip.isEmpty || !n.fdigits.isEmpty) && allDigitsB n.ip &&
  (match n.fp with | none => true | some f => allDigitsB f) &&
  (match n.exp with
   | none => true
   | some (_, ds) => !ds.isEmpty && allDigitsB ds)

def NumLit.pctOKB (n : NumLit) : Bool := n.exp.isNone && decide (n.ip.length ≤ 300)

def Cell.wfB (c : Cell) : Bool :=
  !c.col.isEmpty && decide (c.col.length ≤ 3) && c.col.all (fun ch => decide ('A' ≤ ch ∧ ch ≤ 'Z')) &&
  !c.row.isEmpty && allDigitsB c.row

def nameWFB (f : List Char) : Bool := !f.isEmpty && f.all nameCh

def SheetQ.wfB : SheetQ → Bool
  | .none => true
  | .plain n => nameWFB n
  | .quoted n => !n.contains ':'

def Ref.wfB (r : Ref) : Bool :=
  r.sheet.wfB && r.first.wfB && (match r.last with | none => true | some c => c.wfB)

mutual
def wfB : Expr → Bool
  | .num n pct => n.wfB && (!pct || n.pctOKB)
  | .str _ => true
  | .bool _ => true
  | .err _ => true
  | .ref r => r.wfB
  | .neg e => wfB e && decide (negPrec ≤ e.level)
  | .bin o l r => wfB l && wfB r && decide (o.prec ≤ l.level) && decide (o.prec < r.level)
  | .paren e => wfB e
  | .call _ f args => nameWFB f && wfsB args
def wfsB : List Expr → Bool
  | [] => true
  | a :: as => wfB a && wfsB as
end

end XlVerif.Spec.C02
