/-
  Reference semantics for C03, written from the property statement.  Does not import the model or
  the generated tables.

  A workbook is a set of sheets; a cell is addressed by (sheet, column number, row number); a
  reference *says* "that cell", "that rectangle" or "that name", optionally on an explicit sheet —
  how it is spelt (`$`, quotes, letters) is not part of what it says.  `denoteRef` gives the value(s)
  a reference denotes; `rect` the cells of a rectangle in row-major order; `value` the current value of
  a cell (a constant, or its formula evaluated with unqualified references meaning the formula's own
  sheet); an empty cell is blank.
-/
import XlVerif.Base
namespace XlVerif.Spec.C03
open XlVerif

abbrev Sheet := List Char

structure Addr where
  sheet : Sheet
  col : Nat
  row : Nat
  deriving DecidableEq, Repr, Inhabited

structure Range where
  sheet : Sheet
  c1 : Nat
  r1 : Nat
  c2 : Nat
  r2 : Nat
  deriving DecidableEq, Repr, Inhabited

/-- **the cells of a rectangle**: rows `r1 … r2`, in each row columns `c1 … c2` (row-major). -/
def rect (g : Range) : List (List Addr) :=
  (List.range' g.r1 (g.r2 + 1 - g.r1)).map fun r =>
    (List.range' g.c1 (g.c2 + 1 - g.c1)).map fun c => ⟨g.sheet, c, r⟩

/-- what a reference says (sheet `none` = unqualified) -/
inductive RefText
  | cell (sheet : Option Sheet) (col row : Nat)
  | range (sheet : Option Sheet) (c1 r1 c2 r2 : Nat)
  | name (n : List Char)
  deriving DecidableEq, Repr, Inhabited

/-- a defined name is bound to a cell or to a rectangle of an explicit sheet -/
inductive Target
  | cell (a : Addr)
  | range (g : Range)
  deriving DecidableEq, Repr, Inhabited

/-- the scalar a cell evaluation yields (`none`: the cell holds an array — outside the statement) -/
def scalar : Out V → Out S
  | .val (.s x) => .val x
  | .val (.arr _) => .crash .other
  | .crash k => .crash k
  | .nan => .nan | .posInf => .posInf | .negInf => .negInf | .diverge => .diverge

def seqOut {α} : List (Out α) → Out (List α)
  | [] => .val []
  | o :: os =>
    match o with
    | .val a =>
      match seqOut os with
      | .val as => .val (a :: as)
      | e => e
    | .crash k => .crash k
    | .nan => .nan | .posInf => .posInf | .negInf => .negInf | .diverge => .diverge

/-- values of the cells of a rectangle, row-major, every cell exactly once -/
def rangeValues (cur : Addr → Out V) (g : Range) : Out V :=
  match seqOut ((rect g).map fun row => seqOut (row.map fun a => scalar (cur a))) with
  | .val m => .val (.arr m)
  | .crash k => .crash k
  | .nan => .nan | .posInf => .posInf | .negInf => .negInf | .diverge => .diverge

/-- **denotation of a reference** that occurs in a formula on sheet `sheet`, given the current value
    of every cell and the bindings of the defined names. -/
def denoteRef (cur : Addr → Out V) (names : List Char → Option Target) (sheet : Sheet) : RefText → Out V
  | .cell s c r => cur ⟨s.getD sheet, c, r⟩
  | .range s c1 r1 c2 r2 => rangeValues cur ⟨s.getD sheet, c1, r1, c2, r2⟩
  | .name n =>
    match names n with
    | some (.cell a) => cur a
    | some (.range g) => rangeValues cur g
    | none => .val (.s (.err .name))          -- not constrained by the statement

/-- formulas over references; what the functions compute is a parameter -/
inductive SExpr
  | num (z : Int)
  | ref (r : RefText)
  | un (f : Nat) (a : SExpr)
  | bin (f : Nat) (a b : SExpr)
  deriving Repr, Inhabited

inductive SCell
  | const (v : S)
  | formula (e : SExpr)
  deriving Repr, Inhabited

structure Workbook where
  cells : Addr → Option SCell
  names : List Char → Option Target

section
variable (un : Nat → V → V) (bin : Nat → V → V → V)

def evalS (cur : Addr → Out V) (names : List Char → Option Target) (sheet : Sheet) : SExpr → Out V
  | .num z => .val (.s (.num (.int z)))
  | .ref r => denoteRef cur names sheet r
  | .un f a =>
    match evalS cur names sheet a with
    | .val x => .val (un f x)
    | o => o
  | .bin f a b =>
    match evalS cur names sheet a with
    | .val x =>
      match evalS cur names sheet b with
      | .val y => .val (bin f x y)
      | o => o
    | o => o

/-- **current value of a cell**: blank when empty, the constant, or the formula evaluated on the
    cell's own sheet (fuel bounds the depth of the dependency chain). -/
def value (wb : Workbook) : Nat → Addr → Out V
  | 0, _ => .diverge
  | fuel + 1, a =>
    match wb.cells a with
    | none => .val (.s .blank)
    | some (.const v) => .val (.s v)
    | some (.formula e) => evalS un bin (value wb fuel) wb.names a.sheet e

end

/-! ## columns: bijective base 26 -/

/-- value of a column name `A`=1 … `Z`=26, `AA`=27 … (most significant letter first) -/
def colValue (s : List Char) : Nat := s.foldl (fun a c => a * 26 + (c.toNat - 64)) 0

def isColName (s : List Char) : Bool := !s.isEmpty && s.all fun c => 65 ≤ c.toNat && c.toNat ≤ 90

end XlVerif.Spec.C03
