/-
  Reference semantics for C04 / C05, written from the property statements: *the value of a cell* as a
  plain recursive function of the workbook's inputs — no evaluator object, no context, no memo, no
  write-back, no trace.  `cellVal K sem m fuel [] a` is "the value a freshly compiled model holding the
  inputs of `m` returns for `a`": it reads constants, formula trees, range matrices and defined names
  and nothing else (the stored value of a formula cell and the cached array of a range do not occur
  on any right-hand side below), so it cannot be stale, is trivially deterministic and has no state
  that could accumulate.

  The *datatypes* of workbooks (`Fx`, `Cell`, `Range`, `MState`, `Sem`, `Res`) and the three dictionary
  accessors `MState.cell?` / `range?` / `resolve` are the ones declared in `Model/Evaluator.lean` — that
  import is for these only; none of its evaluation functions (`evalCell`, `evalFx`, `evalRef`,
  `evaluate`, `fresh`, `erase`, stores, contexts, `isEmptyValue`, `toArray`, `argItems`, `argVerdict`) is
  used here; from
  `Model/C04.lean` only the datatype `Op` of API calls is used.  The empty-cell cut-off of the range
  walk (`MAX_EMPTY`) is a parameter `K`: the properties hold for any.
-/
import XlVerif.Model.Evaluator
import XlVerif.Model.C04
namespace XlVerif.Spec.C04
open XlVerif
open XlVerif.Model.Evaluator (Addr Fx Cell Range MState Sem Res AppR ExcKind)

def isEmpty : V → Bool
  | .s (.text []) => true
  | .s .blank => true
  | _ => false

def scalar : V → S
  | .s x => x
  | .arr _ => .err .value

/-- the elements of an argument of AND / OR: a scalar is one element, a range contributes its cells -/
def elems : V → List S
  | .s x => [x]
  | .arr rows => rows.flatten

/-- the elements AND / OR look at: blanks and empty text are ignored -/
def nonBlank (xs : List S) : List S := xs.filter fun x => !isEmpty (.s x)

/-- one row of a range: `cv` gives the value of a cell; a cell is dropped (and the row ends) once more
    than `maxEmpty` consecutive empty cells have been seen -/
def rowVal (K : Nat) (cv : Addr → Res) : List Addr → Nat → List V → Except Res (Nat × List V)
  | [], ec, acc => .ok (ec, acc)
  | a :: rest, ec, acc =>
    match cv a with
    | .val v =>
      if isEmpty v then
        if ec + 1 > K then .ok (ec + 1, acc) else rowVal K cv rest (ec + 1) (acc ++ [v])
      else rowVal K cv rest 0 (acc ++ [v])
    | e => .error e

/-- the rows of a range; the walk ends after more than `maxEmpty` consecutive empty rows -/
def rowsVal (K : Nat) (cv : Addr → Res) : List (List Addr) → Nat → Nat → List (List V) → Except Res (List (List V))
  | [], _, _, acc => .ok acc
  | row :: rest, ec, er, acc =>
    match rowVal K cv row ec [] with
    | .error e => .error e
    | .ok (ec', cells) =>
      if cells.isEmpty then
        if er + 1 > K then .ok acc else rowsVal K cv rest ec' (er + 1) (acc ++ [cells])
      else rowsVal K cv rest ec' 0 (acc ++ [cells])

mutual
/-- value of a formula tree, given the value of every cell -/
def fxVal (K : Nat) (sem : Sem) (m : MState) (cv : Addr → Res) : Fx → Res
  | .lit v => .val v
  | .ref a => cv a
  | .rng key =>
    (match m.range? key with
     | some r =>
       (match rowsVal K cv r.cells 0 0 [] with
        | .ok rows => .val (.arr (rows.map fun r => r.map scalar))
        | .error e => e)
     | none => cv key)
  | .app f args =>
    (match argsVal K sem m cv args with
     | .ok vs =>
       (match sem.app f vs with
        | .val v => .val v
        | .raiseRuntime n => .exc .runtime n
        | .raiseOther n => .exc .problem n)
     | .error e => e)
  | .iff c t e =>
    (match fxVal K sem m cv c with
     | .val v =>
       (match sem.truth v with
        | none => .val v
        | some true => fxVal K sem m cv t
        | some false => fxVal K sem m cv e)
     | r => r)
  | .sc isAnd args => scVal K sem m cv isAnd args
  | .fail n _ => .exc .problem n

def argsVal (K : Nat) (sem : Sem) (m : MState) (cv : Addr → Res) : List Fx → Except Res (List V)
  | [] => .ok []
  | a :: rest =>
    (match fxVal K sem m cv a with
     | .val v =>
       (match argsVal K sem m cv rest with
        | .ok vs => .ok (v :: vs)
        | .error e => .error e)
     | e => .error e)

def scVal (K : Nat) (sem : Sem) (m : MState) (cv : Addr → Res) : Bool → List Fx → Res
  | isAnd, [] => .val (.s (.bool isAnd))
  | isAnd, a :: rest =>
    (match fxVal K sem m cv a with
     | .val v =>
       -- an error among the elements of the argument is the result (the leftmost one)
       (match (elems v).find? (fun x => (sem.truth (.s x)).isNone) with
        | some x => .val (.s x)
        | none =>
          -- otherwise the first non-blank element whose truth value is not the neutral one decides
          (match (nonBlank (elems v)).findSome? (fun x => (sem.truth (.s x)).filter (· != isAnd)) with
           | some b => .val (.s (.bool b))
           | none => scVal K sem m cv isAnd rest))
     | r => r)
end

def sumLens (l : List Addr) : Nat := l.foldl (fun n a => n + a.length + 3) 0

/-- the value of cell `a`; `active` = the cells whose formulas are being evaluated (a reference back
    into it is a cycle), `fuel` bounds the nesting depth (CPython's recursion limit) -/
def cellVal (K : Nat) (sem : Sem) (m : MState) : Nat → List Addr → Addr → Res
  | 0, _, _ => .exc .recursion 0
  | fuel + 1, active, a =>
    let a := m.resolve a
    match m.cell? a with
    | none => .val (.s .blank)
    | some cell =>
      match cell.formula with
      | none => .val cell.value
      | some f =>
        if active.contains a then .exc .cycle (20 + a.length + sumLens active)
        else
          match fxVal K sem m (cellVal K sem m fuel (a :: active)) f with
          | .val v => .val v
          | .exc .problem n => .exc .runtime (35 + a.length + cell.formulaLen + n)
          | e => e

/-- the value a freshly compiled workbook with the inputs of `m` gives for `a` -/
def value (K : Nat) (sem : Sem) (fuel : Nat) (m : MState) (a : Addr) : Res := cellVal K sem m fuel [] a

/-! ### histories: the reference keeps the inputs only -/

def lookup {β : Type} (k : Addr) : List (Addr × β) → Option β
  | [] => none
  | (k', v) :: rest => if k = k' then some v else lookup k rest

/-- replace the value of the (first) cell stored under `a` -/
def replaceValue (a : Addr) (v : V) : List (Addr × Cell) → List (Addr × Cell)
  | [] => []
  | (k, c) :: rest => if a = k then (k, { c with value := v }) :: rest else (k, c) :: replaceValue a v rest

/-- the user sets an input, by address or by defined name: the cell's value is replaced; an address
    that is not in the workbook becomes a new constant cell -/
def setInput (m : MState) (a : Addr) (v : V) : MState :=
  let a := match lookup a m.names with | some t => t | none => a
  match lookup a m.cells with
  | some _ => { m with cells := replaceValue a v m.cells }
  | none => { m with cells := m.cells ++ [(a, { value := v, formula := none })] }

/-- the results of the `evaluate` calls of a history: each is the value of the cell in a workbook
    holding the inputs set so far -/
def results (K : Nat) (sem : Sem) (fuel : Nat) : MState → List XlVerif.Model.C04.Op → List Res
  | _, [] => []
  | m, .set a v :: rest => results K sem fuel (setInput m a v) rest
  | m, .eval a :: rest => value K sem fuel m a :: results K sem fuel m rest
  | m, .get _ :: rest => results K sem fuel m rest

end XlVerif.Spec.C04
