/-
  XlVerif.Spec.C06 — reference notions for "circular references are reported, acyclic sharing is never
  flagged": plain graph theory over an arbitrary dependency function `deps : α → List α`
  (the evaluator-specific function `deps m` is computed from a model in `Model/C06.lean`).

  * `Reach deps x y`   : y is reachable from x in zero or more dependency steps
  * `OnCycle deps x`   : x depends on itself through one or more steps (self reference included)
  * `ReachesCycle deps a` : evaluating `a` must meet a cell that depends on itself
  * `AcyclicBelow deps a` : the dependency graph below `a` has no cycle (diamonds / repeats are fine)
  * `cyclicFrom`       : the executable oracle used by the correspondence (depth-first search along paths)
  * the bounds of the statement's last clause: `cycleMsgBound`, `failMsgBound` (linear in the chain length).
-/
namespace XlVerif.Spec.C06

variable {α : Type}

/-- `y` is reachable from `x` in zero or more dependency steps -/
inductive Reach (deps : α → List α) : α → α → Prop
  | refl (x : α) : Reach deps x x
  | step {x y z : α} : y ∈ deps x → Reach deps y z → Reach deps x z

/-- reachable in one or more steps -/
def Reach1 (deps : α → List α) (x z : α) : Prop := ∃ y, y ∈ deps x ∧ Reach deps y z

/-- `x` depends on itself through any chain of references -/
def OnCycle (deps : α → List α) (x : α) : Prop := Reach1 deps x x

/-- the evaluation of `a` travels into a cycle -/
def ReachesCycle (deps : α → List α) (a : α) : Prop := ∃ x, Reach deps a x ∧ OnCycle deps x

/-- no cycle is reachable from `a` (sharing is allowed) -/
def AcyclicBelow (deps : α → List α) (a : α) : Prop := ¬ ReachesCycle deps a

theorem Reach.trans {deps : α → List α} {x y z : α} (h1 : Reach deps x y) (h2 : Reach deps y z) :
    Reach deps x z := by
  induction h1 with
  | refl => exact h2
  | step hd _ ih => exact .step hd (ih h2)

theorem Reach.tail {deps : α → List α} {x y z : α} (h1 : Reach deps x y) (h2 : z ∈ deps y) :
    Reach deps x z := h1.trans (.step h2 (.refl z))

/-- executable oracle: does a depth-first walk from `x` (having come along `path`) revisit a cell of its
    own path within `fuel` steps?  With `fuel` > number of cells this decides `ReachesCycle`. -/
def cyclicFrom [DecidableEq α] (deps : α → List α) : Nat → List α → α → Bool
  | 0, _, _ => false
  | fuel + 1, path, x =>
    if x ∈ path then true else (deps x).any fun y => cyclicFrom deps fuel (x :: path) y

/-- a revisit found by the walk is a genuine cycle (soundness of the oracle) -/
theorem cyclicFrom_sound [DecidableEq α] (deps : α → List α) (fuel : Nat) (path : List α) (x : α)
    (hpath : ∀ p ∈ path, Reach1 deps p x)
    (h : cyclicFrom deps fuel path x = true) : ReachesCycle deps x := by
  induction fuel generalizing path x with
  | zero => simp [cyclicFrom] at h
  | succ n ih =>
    unfold cyclicFrom at h
    by_cases hx : x ∈ path
    · exact ⟨x, .refl x, hpath x hx⟩
    · simp only [hx, if_false, List.any_eq_true] at h
      obtain ⟨y, hy, hc⟩ := h
      have : ReachesCycle deps y := by
        apply ih (x :: path) y _ hc
        intro p hp
        rcases List.mem_cons.mp hp with rfl | hp
        · exact ⟨y, hy, .refl y⟩
        · obtain ⟨q, hq, hr⟩ := hpath p hp
          exact ⟨q, hq, hr.tail hy⟩
      obtain ⟨z, hz, hcz⟩ := this
      exact ⟨z, .step hy hz, hcz⟩

/-- upper bound for the length of a cycle report that travelled through `chain` cells whose addresses
    are at most `addrLen` long: `"Cycle detected for <addr>:" + "\n- <addr>"` per cell in progress -/
def cycleMsgBound (chain addrLen : Nat) : Nat := 20 + addrLen + chain * (addrLen + 3)

/-- upper bound for the length of any other failure report: ONE wrapper
    `"Problem evaluating cell <addr> formula <formula>: <repr>"`, whatever the depth -/
def failMsgBound (addrLen formulaLen reprLen : Nat) : Nat := 35 + addrLen + formulaLen + reprLen

end XlVerif.Spec.C06
