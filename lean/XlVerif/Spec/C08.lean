/-
  Reference semantics for C08, from the statement: what value a *spelling* of an argument denotes
  when a function parameter is declared numeric; decimal and scientific numerals.
  Does not import the model or the generated tables.
-/
import XlVerif.Base
namespace XlVerif.Spec.C08
open XlVerif

/-- a decimal numeral: sign, integer digits, fraction digits, optional exponent (sign, digits);
    at least one digit in the mantissa is required by `wf` -/
structure Numeral where
  neg : Bool
  plus : Bool := false        -- an explicit '+' sign
  ip : List Nat               -- integer-part digits (each < 10)
  dot : Bool := false         -- a decimal point is written
  fp : List Nat := []         -- fraction digits (only with `dot`)
  exp : Option (Bool × Bool × List Nat) := none   -- (negative, explicit plus, digits)
  lead : Nat := 0             -- leading blanks
  trail : Nat := 0            -- trailing blanks
  deriving Repr

def digitsVal (ds : List Nat) : Nat := ds.foldl (fun a d => a * 10 + d) 0

def Numeral.wf (n : Numeral) : Prop :=
  (∀ d ∈ n.ip, d < 10) ∧ (∀ d ∈ n.fp, d < 10) ∧ (n.ip ≠ [] ∨ n.fp ≠ []) ∧ (n.dot = false → n.fp = []) ∧
  (n.neg = true → n.plus = false) ∧
  (match n.exp with | none => True | some (en, ep, ds) => ds ≠ [] ∧ (∀ d ∈ ds, d < 10) ∧ (en = true → ep = false))

def pow10 (e : Int) : Rat := if e ≥ 0 then ((10 : Rat) ^ e.toNat) else 1 / ((10 : Rat) ^ (-e).toNat)

/-- the number a numeral denotes -/
def Numeral.value (n : Numeral) : Rat :=
  let m : Rat := (digitsVal (n.ip ++ n.fp) : Nat)
  let e : Int := match n.exp with
    | none => 0
    | some (en, _, ds) => if en then -(digitsVal ds : Int) else (digitsVal ds : Int)
  (if n.neg then -1 else 1) * m * pow10 (e - n.fp.length)

def digitChar (d : Nat) : Char := Char.ofNat (48 + d)

/-- how the numeral is written -/
def Numeral.render (n : Numeral) : List Char :=
  List.replicate n.lead ' ' ++
  (if n.neg then ['-'] else if n.plus then ['+'] else []) ++
  n.ip.map digitChar ++ (if n.dot then ['.'] else []) ++ n.fp.map digitChar ++
  (match n.exp with
   | none => []
   | some (en, ep, ds) => 'e' :: ((if en then ['-'] else if ep then ['+'] else []) ++ ds.map digitChar)) ++
  List.replicate n.trail ' '

end XlVerif.Spec.C08
