/-
  Reference semantics for C09, from the statement: one total order on non-blank scalar values.
  Numbers (dates counting as their serials) order numerically, texts case-insensitively, every number
  is smaller than every text, every text smaller than FALSE, FALSE smaller than TRUE.
  A blank equals 0, the empty text and FALSE; two blanks are equal.
-/
import XlVerif.Base
namespace XlVerif.Spec.C09
open XlVerif

def upperAscii (c : Char) : Char := if 'a' ≤ c ∧ c ≤ 'z' then Char.ofNat (c.toNat - 32) else c

/-- the order class of a non-blank, non-error scalar -/
inductive Cls | number (q : Rat) | text (u : List Char) | logical (b : Bool)
  deriving DecidableEq, Repr

def cls : S → Option Cls
  | .num n => some (.number n.toRat)
  | .date d => some (.number d)
  | .text s => some (.text (s.map upperAscii))
  | .bool b => some (.logical b)
  | .blank => none
  | .err _ => none

/-- the strict order of the statement, as a Boolean function -/
def Cls.ltb : Cls → Cls → Bool
  | .number a, .number b => decide (a < b)
  | .number _, .text _ => true
  | .number _, .logical _ => true
  | .text _, .number _ => false
  | .text a, .text b => decide (a < b)
  | .text _, .logical _ => true
  | .logical a, .logical b => !a && b
  | .logical _, _ => false

/-- the strict order of the statement -/
def Cls.lt (x y : Cls) : Prop := Cls.ltb x y = true

instance (x y : Cls) : Decidable (Cls.lt x y) := by unfold Cls.lt; infer_instance

/-- what a blank is equal to -/
def blankEquals : S → Bool
  | .blank => true
  | .num n => n.toRat = 0
  | .text s => s.isEmpty
  | .bool b => !b
  | _ => false

end XlVerif.Spec.C09
