/-
  XlVerif.Spec.C10 — reference semantics of IF / AND / OR / NOT written from the property statement.

  * `truth`      : Excel's truth rules as far as the statement fixes them: TRUE and non-zero numbers are
                   true, FALSE, zero and blank (an empty cell) are false, an error is an error; text and dates are
                   outside the statement (`undef`).
  * computations : `Comp τ ρ = τ → τ × Out ρ` — arbitrary state transformers that return a value, fail
                   (`fail e`: any exception, divergence, a cycle report …) or are outside the statement (`undef`).
  * `IF`         : the condition is run; TRUE ↦ run `a`, FALSE ↦ run `b`, error ↦ the error; NOTHING else runs.
  * `andOr`      : arguments are run left to right; an error among the elements of an evaluated argument is the
                   result; otherwise the result is the conjunction (disjunction) of the truth values of the
                   non-blank elements, and the arguments after the first deciding one are not run.
  * `E` / `eval` : a small reference interpreter (constants, cells of a truth assignment, arrays, logged
                   sub-computations, poison) used by the correspondence: result and log of evaluated spies.
-/
import XlVerif.Base
namespace XlVerif.Spec.C10
open XlVerif

inductive Truth | yes | no | error (c : Code) | undef
  deriving DecidableEq, Repr

def truth : S → Truth
  | .bool true => .yes
  | .bool false => .no
  | .num n => if n.toRat = 0 then .no else .yes
  | .blank => .no
  | .err c => .error c
  | .text [] => .no       -- a cell holding the empty text (`set_cell_value(addr, '')`) counts as empty
  | .text _ => .undef
  | .date _ => .undef

def truthV : V → Truth
  | .s x => truth x
  | .arr _ => .undef

inductive Out (ρ : Type) | val (v : V) | fail (e : ρ) | undef
  deriving Repr

abbrev Comp (τ ρ : Type) := τ → τ × Out ρ

section comb
variable {τ ρ : Type}

def const (v : V) : Comp τ ρ := fun s => (s, .val v)

/-- IF(c, a, b) -/
def IF (c a b : Comp τ ρ) : Comp τ ρ := fun s =>
  match c s with
  | (s1, .val v) =>
    (match truthV v with
     | .yes => a s1
     | .no => b s1
     | .error _ => (s1, .val v)
     | .undef => (s1, .undef))
  | r => r

/-- IF(c, a): FALSE when `b` is omitted -/
def IF2 (c a : Comp τ ρ) : Comp τ ρ := IF c a (const (.s (.bool false)))
/-- IF(c): TRUE / FALSE (as coded; Excel requires at least two arguments) -/
def IF1 (c : Comp τ ρ) : Comp τ ρ := IF c (const (.s (.bool true))) (const (.s (.bool false)))

/-- the elements of an argument value (a scalar, or the cells of a range) -/
def elems : V → List S
  | .s x => [x]
  | .arr rows => rows.flatten

/-- an empty cell: blank (also a never-set member of a referenced range: `XLCell(addr, None)`), or a cell
    holding the empty text -/
def isBlank : S → Bool
  | .blank => true
  | .text [] => true
  | _ => false

def errOf : S → Option Code
  | .err c => some c
  | _ => none

/-- the non-blank elements -/
def nonBlank (xs : List S) : List S := xs.filter fun x => !isBlank x

inductive Verdict | error (c : Code) | decided | continue | undef
  deriving DecidableEq, Repr

/-- what one evaluated argument contributes: its first error; else (outside the statement if a non-blank
    element has no truth value) whether the conjunction (AND) / disjunction (OR) is decided by it -/
def verdict (isAnd : Bool) (xs : List S) : Verdict :=
  match xs.findSome? errOf with
  | some c => .error c
  | none =>
    if (nonBlank xs).any (fun x => truth x = .undef) then .undef
    else if (nonBlank xs).all (fun x => decide (truth x = .yes) = isAnd) then .continue
    else .decided

/-- AND (`isAnd`) / OR over argument computations -/
def andOr (isAnd : Bool) : List (Comp τ ρ) → Comp τ ρ
  | [] => fun s => (s, .val (.s (.bool isAnd)))
  | t :: rest => fun s =>
    match t s with
    | (s1, .val v) =>
      (match verdict isAnd (elems v) with
       | .error c => (s1, .val (.s (.err c)))
       | .decided => (s1, .val (.s (.bool (!isAnd))))
       | .continue => andOr isAnd rest s1
       | .undef => (s1, .undef))
    | r => r

/-- NOT(a) -/
def NOT (a : Comp τ ρ) : Comp τ ρ := fun s =>
  match a s with
  | (s1, .val v) =>
    (match truthV v with
     | .yes => (s1, .val (.s (.bool false)))
     | .no => (s1, .val (.s (.bool true)))
     | .error c => (s1, .val (.s (.err c)))
     | .undef => (s1, .undef))
  | r => r

/-- the conjunction / disjunction of the truth values of the non-blank elements (no errors, all in the domain) -/
def junction (isAnd : Bool) (xs : List S) : Bool :=
  if isAnd then (nonBlank xs).all (fun x => truth x = .yes) else (nonBlank xs).any (fun x => truth x = .yes)

end comb

/-! ### reference interpreter for the correspondence -/

/-- expressions: the log of evaluated spies is the observable besides the result -/
inductive E
  | const (v : V)
  | arr (cells : List E)                 -- a range: every member is evaluated, in order
  | strict (g : Nat) (args : List E)     -- an operator / strict function: all arguments are evaluated
  | spy (k : Nat) (e : E)                -- logs `k`, then evaluates `e`
  | poison                               -- fails when evaluated (unknown function, raise, circular reference)
  | if3 (c a b : E)
  | if2 (c a : E)
  | if1 (c : E)
  | andor (isAnd : Bool) (args : List E)
  | not (a : E)
  deriving Repr, Inhabited

def scalarOf : V → S
  | .s x => x
  | .arr _ => .err .value

section interp
-- meaning of the strict functions (a parameter: C10 does not constrain them)
variable (op : Nat → List V → Out Unit)

mutual
def eval : E → Comp (List Nat) Unit
  | .const v => const v
  | .arr cells => fun s =>
    (match evalList cells s with
     | (s1, some vs) => (s1, .val (.arr [vs.map scalarOf]))
     | (s1, none) => (s1, .fail ()))
  | .strict g args => fun s =>
    (match evalList args s with
     | (s1, some vs) => (s1, op g vs)
     | (s1, none) => (s1, .fail ()))
  | .spy k e => fun s => eval e (s ++ [k])
  | .poison => fun s => (s, .fail ())
  | .if3 c a b => IF (eval c) (eval a) (eval b)
  | .if2 c a => IF2 (eval c) (eval a)
  | .if1 c => IF1 (eval c)
  | .andor isAnd args => if args.isEmpty then (fun s => (s, .undef)) else andOr isAnd (comps args)
  | .not a => NOT (eval a)
def comps : List E → List (Comp (List Nat) Unit)
  | [] => []
  | a :: rest => eval a :: comps rest
/-- all members evaluated to values (`none`: one failed or is outside the statement) -/
def evalList : List E → List Nat → List Nat × Option (List V)
  | [], s => (s, some [])
  | a :: rest, s =>
    (match eval a s with
     | (s1, .val v) =>
       (match evalList rest s1 with
        | (s2, some vs) => (s2, some (v :: vs))
        | (s2, none) => (s2, none))
     | (s1, _) => (s1, none))
end
end interp

end XlVerif.Spec.C10
