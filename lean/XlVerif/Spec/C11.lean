/-
  C11 — reference semantics of "a workbook file loads into a model with the same cells and formulas",
  written from the property statement.  Does not import the model or the generated tables.

  Part 1 is the *input syntax* shared with the model: an abstract workbook as SpreadsheetML stores it
  (sheets × stored cells in one storage form each, a shared-string table, defined names) — i.e. the
  file *after* XML parsing.  Formulas are kept as token lists so that "the formula a member of a shared
  group would show" has a meaning that does not depend on any scanner; the model renders them to the
  text the file holds and works on that text only.
  Part 2 is the statement: which cells, which contents, which names.
-/
import XlVerif.Base
namespace XlVerif.Spec.C11
open XlVerif

abbrev Text := List Char

/-! ## Part 1 — abstract workbook (input syntax) -/

/-- 1-based column and row of a stored cell. -/
structure Coord where
  col : Nat
  row : Nat
  deriving DecidableEq, Repr, Inhabited

/-- A Python value as it sits in `XLCell.value` after loading. -/
inductive PyVal
  | none | int (z : Int) | flt (q : Rat) | str (s : Text) | bool (b : Bool) | date (serial : Rat)
  deriving DecidableEq, Repr, Inhabited

/-- The value part of a `<c>` element: its `t` attribute, its number format class and its `<v>`/`<is>`
    payload.  For a formula cell this is the cached result. -/
inductive Stored
  | empty                 -- no `<v>` at all (styled blank cell; formula never calculated)
  | n (v : Num)           -- `t="n"`/absent, general format; int when the literal has no `.`/`e`/`E`
  | nDate (v : Num)       -- `t="n"`/absent with a date number format: a serial
  | s (idx : Nat)         -- `t="s"`: index into the shared-string table
  | str (t : Text)        -- `t="str"`: text result stored in place
  | inl (t : Text)        -- `t="inlineStr"`: `<is><t>…</t></is>`
  | b (v : Bool)          -- `t="b"`
  | e (t : Text)          -- `t="e"`: the error literal, e.g. `#DIV/0!`
  deriving DecidableEq, Repr, Inhabited

/-- Formula tokens.  `cell ac col ar row` is `[$]COL[$]ROW` (`ac`/`ar` = the `$` markers); `pfx s` is a
    sheet prefix `s!` (`s` raw, with its quotes when quoted); `lit` is any other stretch of text. -/
inductive FTok
  | lit (s : Text)
  | pfx (s : Text)
  | cell (ac : Bool) (col : Nat) (ar : Bool) (row : Nat)
  deriving DecidableEq, Repr, Inhabited

/-- The `<f>` element of a cell. -/
inductive FForm
  | plain (toks : List FTok)                 -- `<f>text</f>`
  | master (si : Nat) (toks : List FTok)     -- `<f t="shared" si=… ref=…>text</f>`
  | member (si : Nat)                        -- `<f t="shared" si=…/>`
  deriving DecidableEq, Repr, Inhabited

structure SCell where
  coord : Coord
  formula : Option FForm
  stored : Stored
  deriving DecidableEq, Repr, Inhabited

structure Sheet where
  name : Text
  cells : List SCell
  deriving DecidableEq, Repr, Inhabited

/-- Target of a defined name: one cell or one rectangular area on one sheet. `quoted` = the sheet
    name is written `'…'` (apostrophes doubled), `ac1 … ar2` = the `$` markers. -/
structure Target where
  sheet : Text
  quoted : Bool
  ac1 : Bool
  c1 : Coord
  ar1 : Bool
  snd : Option (Bool × Coord × Bool)     -- `:[$]COL[$]ROW`
  deriving DecidableEq, Repr, Inhabited

inductive TargetForm
  | ref (t : Target)
  | raw (t : Text)        -- anything else (`#REF!`, constants, formulas): outside the statement
  deriving DecidableEq, Repr, Inhabited

structure DefName where
  name : Text
  hidden : Bool
  target : TargetForm
  deriving DecidableEq, Repr, Inhabited

structure Workbook where
  sst : List Text
  sheets : List Sheet
  names : List DefName
  deriving DecidableEq, Repr, Inhabited

/-! ### A1 notation -/

def letterOf (k : Nat) : Char := Char.ofNat (65 + k)

/-- bijective base-26 column name: 1 ↦ A, 26 ↦ Z, 27 ↦ AA (fuel = the number itself). -/
def colNameF : Nat → Nat → Text
  | 0, _ => []
  | _, 0 => []
  | f + 1, n + 1 => colNameF f (n / 26) ++ [letterOf (n % 26)]
def colName (n : Nat) : Text := colNameF n n

def digitOf (k : Nat) : Char := Char.ofNat (48 + k)

/-- decimal digits of a natural number, no leading zero (`0 ↦ "0"`). -/
def digitsF : Nat → Nat → Text
  | 0, n => [digitOf (n % 10)]
  | f + 1, n => if n < 10 then [digitOf n] else digitsF f (n / 10) ++ [digitOf (n % 10)]
def digits (n : Nat) : Text := digitsF n n

/-- `A1`. -/
def coordText (c : Coord) : Text := colName c.col ++ digits c.row

/-- `Sheet!A1`: the address of a cell of the model. -/
def addr (sheet : Text) (c : Coord) : Text := sheet ++ '!' :: coordText c

/-- `[$]COL[$]ROW`. -/
def refText (ac : Bool) (col : Nat) (ar : Bool) (row : Nat) : Text :=
  (if ac then ['$'] else []) ++ colName col ++ (if ar then ['$'] else []) ++ digits row

def FTok.render : FTok → Text
  | .lit s => s
  | .pfx s => s ++ ['!']
  | .cell ac col ar row => refText ac col ar row

def renderToks (ts : List FTok) : Text := (ts.map FTok.render).flatten

/-- The text a formula cell shows: `=` followed by the content of `<f>`. -/
def formulaText (ts : List FTok) : Text := '=' :: renderToks ts

/-! ## Part 2 — the statement -/

/-- The constant a stored value denotes (number, text, boolean, date; an error literal is kept as its
    text; nothing stored = no value). -/
def valueOf (sst : List Text) : Stored → PyVal
  | .empty => .none
  | .n (.int z) => .int z
  | .n (.flt q) => .flt q
  | .nDate v => .date v.toRat
  | .s idx => .str (sst.getD idx [])
  | .str t => .str t
  | .inl t => .str t
  | .b v => .bool v
  | .e t => .str t

/-- A relative coordinate moves with the cell, a `$`-absolute one stays. -/
def displace (abs : Bool) (x : Nat) (d : Int) : Nat := if abs then x else ((x : Int) + d).toNat

/-- The token a cell `dc` columns right and `dr` rows below the master shows for a master's token. -/
def FTok.shift (dc dr : Int) : FTok → FTok
  | .cell ac col ar row => .cell ac (displace ac col dc) ar (displace ar row dr)
  | t => t

/-- The declared master of shared group `si` on a sheet. -/
def findMaster (si : Nat) : List SCell → Option (Coord × List FTok)
  | [] => none
  | c :: cs =>
    match c.formula with
    | some (.master sj toks) => if sj = si then some (c.coord, toks) else findMaster si cs
    | _ => findMaster si cs

/-- Shared groups as SpreadsheetML writes them: a group's master comes first (in document order), has a
    non-empty formula and is the only master of the group; a member follows its master.  `pre` = the cells
    before the ones looked at. -/
def sharedOK (pre : List SCell) : List SCell → Bool
  | [] => true
  | c :: cs =>
    (match c.formula with
     | some (.master si toks) => (findMaster si pre).isNone && renderToks toks != []
     | some (.member si) => (findMaster si pre).isSome
     | _ => true) && sharedOK (pre ++ [c]) cs

/-- No `t="str"`/`t="e"` cell with an empty `<v/>` (openpyxl reads those as "no value"; the statement
    does not say what an empty text result is). -/
def textOK (cells : List SCell) : Bool :=
  cells.all fun c => c.stored != .str [] && c.stored != .e []

/-- The formula text a formula cell shows (`none`: a member whose group has no master — not a
    SpreadsheetML file). -/
def shownFormula (cells : List SCell) (c : SCell) : Option (Option Text) :=
  match c.formula with
  | none => some none
  | some (.plain toks) => some (some (formulaText toks))
  | some (.master _ toks) => some (some (formulaText toks))
  | some (.member si) =>
    match findMaster si cells with
    | none => none
    | some (m, toks) =>
      some (some (formulaText (toks.map (FTok.shift ((c.coord.col : Int) - m.col) ((c.coord.row : Int) - m.row)))))

/-- What the statement demands of one loaded cell: its address, the constant or cached result, and the
    formula text (`none` = a constant). -/
structure CellSpec where
  address : Text
  value : PyVal
  formula : Option Text
  deriving DecidableEq, Repr

def sheetCells (sst : List Text) (sh : Sheet) : List CellSpec :=
  sh.cells.filterMap fun c =>
    (shownFormula sh.cells c).map fun f =>
      { address := addr sh.name c.coord, value := valueOf sst c.stored, formula := f }

/-- One cell per stored cell of every sheet that is not ignored. -/
def cells (wb : Workbook) (ignore : List Text) : List CellSpec :=
  (wb.sheets.filter fun sh => !ignore.contains sh.name).flatMap (sheetCells wb.sst)

/-- Binding of a defined name. -/
inductive Binding
  | cell (address : Text)                                  -- bound to that cell of the model
  | range (address : Text) (members : List (List Text))    -- bound to the area, row by row
  | free                                                   -- the statement makes no demand
  deriving DecidableEq, Repr

def Target.address (t : Target) : Text :=
  match t.snd with
  | none => addr t.sheet t.c1
  | some (_, c2, _) => addr t.sheet t.c1 ++ ':' :: coordText c2

/-- members of the area `c1:c2`, row by row. -/
def members (sheet : Text) (c1 c2 : Coord) : List (List Text) :=
  (List.range (c2.row + 1 - c1.row)).map fun i =>
    (List.range (c2.col + 1 - c1.col)).map fun j => addr sheet ⟨c1.col + j, c1.row + i⟩

/-- A visible name for a single cell is bound to that cell when the cell is in the model (a name for a
    cell that is not loaded — empty or on an ignored sheet — is outside the statement); a name for an
    area is bound to the area. -/
def binding (wb : Workbook) (ignore : List Text) (d : DefName) : Binding :=
  match d.target with
  | .raw _ => .free
  | .ref t =>
    if d.hidden then .free else
    match t.snd with
    | none =>
      if (cells wb ignore).any (fun c => c.address == addr t.sheet t.c1) then .cell (addr t.sheet t.c1)
      else .free
    | some (_, c2, _) => .range t.address (members t.sheet t.c1 c2)

def bindings (wb : Workbook) (ignore : List Text) : List (Text × Binding) :=
  wb.names.map fun d => (d.name, binding wb ignore d)

/-- A cell of the model that no stored cell accounts for may only be an empty placeholder: no value, no
    formula. -/
def isPlaceholder (value : PyVal) (formula : Option Text) : Bool :=
  value == .none && formula.isNone

end XlVerif.Spec.C11
