/-
  Reference semantics for C12, written from the property statement:

  "Writing a model to a JSON file (plain or gzip-compressed, chosen by the file extension) and constructing a
   model from that file yields the same cells (address, value, formula text), formulae, defined names and
   ranges, and after compilation every cell evaluates to the same value as in the original model."

  Does not import the model or the generated tables.
-/
import XlVerif.Base
namespace XlVerif.Spec.C12
open XlVerif

abbrev Text := List Char

/-- What the statement compares.  `V` = stored values, `A` = addresses / texts as stored, `T` = what a defined
    name is bound to (kind and target), `R` = a range (address and matrix of cell addresses). -/
structure Obs (C F T R : Type) where
  /-- key ↦ (address, value, formula text) -/
  cells : List (Text × C)
  /-- key ↦ formula text -/
  formulae : List (Text × F)
  /-- defined name ↦ kind and target -/
  names : List (Text × T)
  /-- key ↦ address and address matrix -/
  ranges : List (Text × R)

def find {α} (k : Text) : List (Text × α) → Option α
  | [] => none
  | (k', v) :: r => if k' = k then some v else find k r

/-- two dicts hold the same entries (the order of the entries does not matter) -/
def SameEntries {α} (a b : List (Text × α)) : Prop := ∀ k, find k a = find k b

/-- "yields the same cells, formulae, defined names and ranges" -/
def Equivalent {C F T R} (orig restored : Obs C F T R) : Prop :=
  SameEntries orig.cells restored.cells ∧ SameEntries orig.formulae restored.formulae ∧
  SameEntries orig.names restored.names ∧ SameEntries orig.ranges restored.ranges

/-- "after compilation every cell evaluates to the same value": `ev` is any evaluation that reads the compiled
    model (`M`) at a cell key. -/
def EvaluatesSame {M Val} (ev : M → Text → Val) (origCompiled restored : M) : Prop :=
  ∀ k, ev restored k = ev origCompiled k

/-! ### "chosen by the file extension" -/

/-- the extensions that mean gzip, compared case-insensitively -/
def gzipExts : List Text := [['.', 'g', 'z'], ['.', 'g', 'z', 'i', 'p']]

/-- last component of a path -/
def lastComponent (p : Text) : Text := (p.reverse.takeWhile (· != '/')).reverse

/-- The extension of a file name: the part of the last path component from its last dot on, unless only dots
    precede that dot (`.bashrc`, `..gz` have no extension). -/
def extOf (p : Text) : Text :=
  let c := lastComponent p
  let suf := (c.reverse.takeWhile (· != '.')).reverse
  if suf.length = c.length then []
  else if (c.take (c.length - suf.length - 1)).all (· == '.') then []
  else '.' :: suf

/-- the file is gzip-compressed iff its lower-cased extension is `.gz` or `.gzip` -/
def isGzipName (lower : Text → Text) (fname : Text) : Bool := gzipExts.contains (lower (extOf fname))

end XlVerif.Spec.C12
