/-
  XlVerif.Spec.C13 — what an extracted sub-model has to contain: the dependency closure of the focus.

  The workbook enters only as its dependency graph `succ : address → list of addresses`:
    a defined name bound to a cell → that cell;  a defined name bound to a range → its member cells;
    a formula cell → the cells / range keys its formula refers to;  a range key → its member cells.
  `Closure succ roots` is the least set containing the roots and closed under `succ`.
  `closureN` computes it by saturation; `saturated` certifies that the computation is complete.
-/
namespace XlVerif.Spec.C13

/-- the least set containing `roots` and closed under `succ` -/
inductive Closure {α : Type} (succ : α → List α) (roots : List α) : α → Prop
  | root {a : α} : a ∈ roots → Closure succ roots a
  | step {a b : α} : Closure succ roots a → b ∈ succ a → Closure succ roots b

variable {α : Type} [DecidableEq α]

def addNew (acc : List α) (b : α) : List α := if b ∈ acc then acc else acc ++ [b]

/-- add the successors of every element of `s` -/
def expand (succ : α → List α) (s : List α) : List α :=
  s.foldl (fun acc a => (succ a).foldl addNew acc) s

def closureN (succ : α → List α) : Nat → List α → List α
  | 0, s => s
  | n + 1, s => closureN succ n (expand succ s)

/-- `s` is closed under `succ` -/
def saturated (succ : α → List α) (s : List α) : Bool :=
  s.all fun a => (succ a).all fun b => decide (b ∈ s)

end XlVerif.Spec.C13
