/-
  Reference semantics for C14, written from the property statement: SUM, AVERAGE, MIN, MAX, COUNT,
  COUNTA and SUMPRODUCT are folds over exactly the addressed values; blanks and text found in ranges
  are ignored (for SUMPRODUCT: count as zero), SUMPRODUCT rejects differently shaped ranges.
  Arithmetic is over ℚ.  Does not import the model or the generated tables.
-/
import XlVerif.Base
namespace XlVerif.Spec.C14
open XlVerif

/-- the number an addressed value contributes: only numbers do -/
def numOf : S → Option Rat
  | .num n => some n.toRat
  | _ => none

/-- an empty cell: a blank (a cell that holds nothing), or a cell explicitly set to the empty string -/
def isEmpty : S → Bool
  | .blank => true
  | .text [] => true
  | _ => false

/-- an argument: a scalar or a rectangular range (rows of cells) -/
inductive A
  | scalar (x : S)
  | range (rows : List (List S))

/-- the values an argument addresses, in row-major order -/
def A.cells : A → List S
  | .scalar x => [x]
  | .range rows => rows.flatten

/-- exactly the addressed values of an argument list -/
def addressed : List A → List S
  | [] => []
  | a :: as => a.cells ++ addressed as

/-- Σ -/
def rsum : List Rat → Rat
  | [] => 0
  | x :: xs => x + rsum xs

/-- the numbers among the addressed values -/
def nums (xs : List S) : List Rat := xs.filterMap numOf

def sum (xs : List S) : Rat := rsum (nums xs)

/-- count of numbers -/
def count (xs : List S) : Nat := (nums xs).length

/-- count of non-empty values -/
def counta (xs : List S) : Nat := (xs.filter fun x => !isEmpty x).length

def rmin (a b : Rat) : Rat := if a ≤ b then a else b
def rmax (a b : Rat) : Rat := if a ≤ b then b else a

/-- minimum of a list (`none` for the empty list: the statement says nothing about it) -/
def minL : List Rat → Option Rat
  | [] => none
  | x :: xs => some (match minL xs with | none => x | some m => rmin x m)

def maxL : List Rat → Option Rat
  | [] => none
  | x :: xs => some (match maxL xs with | none => x | some m => rmax x m)

/-- arithmetic mean (`none` when no number is addressed) -/
def meanL : List Rat → Option Rat
  | [] => none
  | x :: xs => some (rsum (x :: xs) / ((x :: xs).length : Rat))

def minimum (xs : List S) : Option Rat := minL (nums xs)
def maximum (xs : List S) : Option Rat := maxL (nums xs)
def mean (xs : List S) : Option Rat := meanL (nums xs)

/-! ### SUMPRODUCT -/

/-- the factor a cell contributes to a product: its number, and zero for a blank or a text -/
def valOr0 (x : S) : Rat := match numOf x with | some q => q | none => 0

/-- shape of a range: the length of every row -/
def dims (rows : List (List S)) : List Nat := rows.map List.length

/-- the factors of a range in row-major order -/
def vals (rows : List (List S)) : List Rat := rows.flatten.map valOr0

/-- element-wise product of two equally long lists -/
def pointMul (a b : List Rat) : List Rat := List.zipWith (fun x y => x * y) a b

/-- element-wise product of `n`-element lists -/
def products (n : Nat) (cols : List (List Rat)) : List Rat :=
  cols.foldr pointMul (List.replicate n 1)

/-- Σ of the element-wise products; `none` = `#VALUE!` when the ranges are shaped differently
    (the statement says nothing about an empty argument list). -/
def sumproduct : List (List (List S)) → Option Rat
  | [] => none
  | a :: rest =>
    if rest.all (fun b => decide (dims b = dims a)) then
      some (rsum (products (vals a).length ((a :: rest).map vals)))
    else none

end XlVerif.Spec.C14
