/-
  Reference semantics for C15, written from the property statement: criteria counting and lookups
  are linear scans of the range.

  * a criterion is a value, or a text with an optional comparison prefix `= <> < <= > >=` and a
    numeric (also negative, decimal) or text operand; texts match case-insensitively; an ordering
    criterion only matches cells of its operand's own type;
  * COUNTIF = number of cells for which the criterion holds; COUNTIFS = number of positions at which
    every criterion holds on its own column;
  * MATCH (exact) = 1-based position of the first element equal to the lookup value, #N/A if none;
    approximate MATCH = last position whose value does not exceed the lookup value, in ascending data;
  * VLOOKUP = the requested column of the first row whose key equals the lookup value, #N/A when there
    is none, an error value for a column outside the table;
  * CHOOSE(i, v1..vn) = v_i, #VALUE! for i outside 1..n.

  Values are compared through their order class `Spec.C09.Cls` (numbers and dates numerically, texts
  case-insensitively; the one total order of C09).  No import of `Model` or `Gen`.
-/
import XlVerif.Base
import XlVerif.Spec.C09
namespace XlVerif.Spec.C15
open XlVerif XlVerif.Spec.C09

/-! ## criteria -/

inductive Op | eq | ne | lt | le | gt | ge
  deriving DecidableEq, Repr

def Op.ordering : Op → Bool
  | .lt | .le | .gt | .ge => true
  | _ => false

/-- the optional comparison prefix (the longest one) and the operand text -/
def splitOp : List Char → List Char × List Char
  | '<' :: '=' :: r => (['<', '='], r)
  | '<' :: '>' :: r => (['<', '>'], r)
  | '>' :: '=' :: r => (['>', '='], r)
  | '<' :: r => (['<'], r)
  | '>' :: r => (['>'], r)
  | '=' :: r => (['='], r)
  | r => ([], r)

def opOfPrefix (p : List Char) : Op :=
  if p = ['<', '='] then .le else if p = ['<', '>'] then .ne else if p = ['>', '='] then .ge
  else if p = ['<'] then .lt else if p = ['>'] then .gt else .eq

def isDigit (c : Char) : Bool := '0' ≤ c && c ≤ '9'
def digitVal (c : Char) : Nat := c.toNat - '0'.toNat
/-- value of a digit string -/
def natOf (ds : List Char) : Nat := ds.foldl (fun a c => a * 10 + digitVal c) 0

/-- doubles are finite strictly below this -/
def doubleLimit : Rat := (2 : Rat) ^ 1024

/-- value of an integer part `ip` (digits) followed by `rest` (nothing, or `.` and digits) under a
    sign; at most 15 digits; `none` = not of this grammar -/
def numberCore (sg : Int) (ip rest : List Char) : Option Rat :=
  if ip = [] then none else
  match rest with
  | [] => if ip.length ≤ 15 then some ((sg * (natOf ip : Int) : Int) : Rat) else none
  | c :: fp =>
    if c = '.' ∧ fp ≠ [] ∧ fp.all isDigit ∧ ip.length + fp.length ≤ 15 then
      let q : Rat := (sg : Rat) * ((natOf ip * 10 ^ fp.length + natOf fp : Nat) : Rat) * (1 / (10 : Rat) ^ fp.length)
      if q ≥ doubleLimit ∨ q ≤ -doubleLimit then none else some q
    else none

/-- value of `digits (. digits)?` under a sign -/
def numberBody (sg : Int) (body : List Char) : Option Rat :=
  numberCore sg (body.takeWhile isDigit) (body.dropWhile isDigit)

/-- value of a numeric operand `-? digits (. digits)?`; `none` = not a numeral of this grammar. -/
def number? (s : List Char) : Option Rat :=
  match s with
  | '-' :: r => numberBody (-1) r
  | r => numberBody 1 r

def isLetter (c : Char) : Bool := ('a' ≤ c && c ≤ 'z') || ('A' ≤ c && c ≤ 'Z')
def isSpace (c : Char) : Bool := c = ' ' || c = '\t' || c = '\n' || c = '\r' || c.toNat = 11 || c.toNat = 12
def lowerAscii (c : Char) : Char := if 'A' ≤ c ∧ c ≤ 'Z' then Char.ofNat (c.toNat + 32) else c

/-- texts that spell a number or a truth value rather than a word -/
def reserved : List (List Char) :=
  ["inf".toList, "infinity".toList, "nan".toList, "true".toList, "false".toList]

/-- a text operand of the statement: begins with a letter, does not end in white space, has no line
    break, and does not spell a truth value or a non-finite number. (Texts that a date parser reads
    as a date are excluded by the caller: they are not "text operands" either.) -/
def isWord (t : List Char) : Bool :=
  match t with
  | [] => false
  | c :: _ =>
    isLetter c && !(isSpace (t.getLast?.getD c)) && !(t.contains '\n') &&
      !(reserved.contains (t.map lowerAscii))

/-- the criterion a text denotes: operator and operand class; `none` = outside the statement -/
def critOfText (s : List Char) : Option (Op × Cls) :=
  let (p, operand) := splitOp s
  if operand.contains '\n' then none else
  match number? operand with
  | some q => some (opOfPrefix p, .number q)
  | none => if isWord operand then some (opOfPrefix p, .text (operand.map upperAscii)) else none

def sameKind : Cls → Cls → Bool
  | .number _, .number _ => true
  | .text _, .text _ => true
  | .logical _, .logical _ => true
  | _, _ => false

/-- does the criterion hold for a cell?  Equality and inequality are those of the total order;
    an ordering criterion only matches cells of its operand's own type. -/
def holds (op : Op) (operand cell : Cls) : Bool :=
  match op with
  | .eq => decide (cell = operand)
  | .ne => !decide (cell = operand)
  | .lt => sameKind cell operand && Cls.ltb cell operand
  | .gt => sameKind cell operand && Cls.ltb operand cell
  | .le => sameKind cell operand && (Cls.ltb cell operand || decide (cell = operand))
  | .ge => sameKind cell operand && (Cls.ltb operand cell || decide (cell = operand))

/-- COUNTIF: the number of cells for which the criterion holds -/
def countif (op : Op) (operand : Cls) (cells : List Cls) : Nat :=
  (cells.filter (holds op operand)).length

/-- the criterion a criteria argument denotes: a text is parsed, any other value means equality -/
def critOf (c : S) : Option (Op × Cls) :=
  match c with
  | .text s => critOfText s
  | v => (cls v).map fun k => (Op.eq, k)

/-- position-by-position conjunction of the per-column answers -/
def flagsAnd : List (List Bool) → List Bool
  | [] => []
  | [f] => f
  | f :: fs => List.zipWith (fun a b => a && b) f (flagsAnd fs)

/-- COUNTIFS over columns of one common length: the number of positions at which every criterion
    holds on its own column -/
def countifs (pairs : List (List Cls × Op × Cls)) : Nat :=
  ((flagsAnd (pairs.map fun (col, op, operand) => col.map (holds op operand))).filter id).length

/-! ## MATCH -/

/-- 0-based index of the first element equal to the key -/
def firstIdx (key : Cls) : List Cls → Option Nat
  | [] => none
  | c :: r => if c = key then some 0 else (firstIdx key r).map (· + 1)

/-- exact MATCH: 1-based position of the first equal element; `none` = #N/A -/
def matchExact (key : Cls) (cells : List Cls) : Option Nat := (firstIdx key cells).map (· + 1)

/-- `a ≤ b` in the one total order -/
def leb (a b : Cls) : Bool := Cls.ltb a b || decide (a = b)

/-- ascending data: no element is smaller than its predecessor -/
def ascending : List Cls → Bool
  | a :: b :: r => leb a b && ascending (b :: r)
  | _ => true

/-- approximate MATCH: the last 1-based position whose value does not exceed the key; 0 = none.
    (If a later position qualifies it is that one, otherwise the head if it qualifies.) -/
def lastLe (key : Cls) : List Cls → Nat
  | [] => 0
  | c :: r =>
    match lastLe key r with
    | 0 => if leb c key then 1 else 0
    | p + 1 => p + 2

/-! ## VLOOKUP -/

inductive Lookup (α : Type) | value (v : α) | na | colError
  deriving DecidableEq, Repr

/-- first row whose key (first cell) equals the lookup value -/
def firstRow {α} (key : Cls) : List (Cls × List α) → Option (List α)
  | [] => none
  | (k, row) :: r => if k = key then some row else firstRow key r

/-- `rows` are pairs (class of the key cell, whole row); `col` is the 1-based column; `width` the
    number of columns of the table -/
def vlookup {α} (key : Cls) (rows : List (Cls × List α)) (width : Nat) (col : Int) : Lookup α :=
  if col < 1 ∨ col > width then .colError
  else match firstRow key rows with
    | none => .na
    | some row => match row[col.toNat - 1]? with
      | some v => .value v
      | none => .colError

/-! ## CHOOSE -/

/-- `some v` = the chosen value, `none` = #VALUE! -/
def choose {α} (i : Int) (values : List α) : Option α :=
  if i < 1 ∨ i > values.length then none else values[i.toNat - 1]?

end XlVerif.Spec.C15
