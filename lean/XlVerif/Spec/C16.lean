/-
  Reference semantics for C16, written from the property statement (no import of the model or of
  generated tables; core Lean only, because the driver links it).

  * decimal rounding in Excel's directions on exact rationals:
      ROUND      – nearest multiple of 10^-d, ties away from zero
      ROUNDUP    – away from zero,   ROUNDDOWN / TRUNC – toward zero
      INT        – toward minus infinity (floor)
      EVEN       – next even integer away from zero
      CEILING / FLOOR – to the multiple of the significance (`s·⌈x/s⌉`, `s·⌊x/s⌋`)
  * MOD with the sign of the divisor, FACT / FACTDOUBLE on integers, ABS, SIGN
  * the domain table: which arguments must give an Excel error value
  * `ATAN2(x, y) = atan2 y x` over an abstract `atan2`.
-/
import XlVerif.Base
namespace XlVerif.Spec.C16
open XlVerif

/-- `10^d` for an integer `d` (negative exponents give `1 / 10^|d|`). -/
def pow10 (d : Int) : Rat := (10 : Rat) ^ d

/-! ### rounding a rational to an integer -/

/-- toward zero -/
def truncZ (y : Rat) : Int := if y < 0 then -((-y).floor) else y.floor
/-- away from zero -/
def awayZ (y : Rat) : Int := if y < 0 then -((-y).ceil) else y.ceil
/-- nearest integer, ties away from zero -/
def nearAwayZ (y : Rat) : Int := if y < 0 then -((-y + 1/2).floor) else (y + 1/2).floor

/-! ### the rounding family: round `x·10^d` to an integer, scale back -/

def round (x : Rat) (d : Int) : Rat := (nearAwayZ (x * pow10 d) : Rat) / pow10 d
def roundUp (x : Rat) (d : Int) : Rat := (awayZ (x * pow10 d) : Rat) / pow10 d
def roundDown (x : Rat) (d : Int) : Rat := (truncZ (x * pow10 d) : Rat) / pow10 d
def trunc (x : Rat) (d : Int) : Rat := roundDown x d
def int (x : Rat) : Int := x.floor
/-- next even integer away from zero -/
def even (x : Rat) : Int := 2 * awayZ (x / 2)
/-- `CEILING(x, s)`: the multiple `s·⌈x/s⌉` (for `s > 0` the least multiple `≥ x`; for `s < 0`,
    Excel's rule "away from zero", the greatest multiple `≤ x`). -/
def ceiling (x s : Rat) : Rat := s * ((x / s).ceil : Rat)
/-- `FLOOR(x, s)`: the multiple `s·⌊x/s⌋`. -/
def floor (x s : Rat) : Rat := s * ((x / s).floor : Rat)

/-! ### exact elementary functions -/

/-- `MOD(x, d)` for `d ≠ 0`: the remainder with the sign of the divisor. -/
def mod (x d : Rat) : Rat := x - d * ((x / d).floor : Rat)

def abs (x : Rat) : Rat := if x < 0 then -x else x
def sign (x : Rat) : Int := if x < 0 then -1 else if x = 0 then 0 else 1

def fact : Nat → Nat
  | 0 => 1
  | n + 1 => (n + 1) * fact n

/-- double factorial `n!! = n·(n-2)·…` with `0!! = 1!! = 1`. -/
def factDouble : Nat → Nat
  | 0 => 1
  | 1 => 1
  | n + 2 => (n + 2) * factDouble n

/-- `ATAN2(x_num, y_num)` is the angle of the point `(x_num, y_num)`: `atan2 y x`. -/
def atan2 (prim : Rat → Rat → α) (xNum yNum : Rat) : α := prim yNum xNum

/-! ### the domain table (arguments that must give an Excel error value) -/

inductive Fn
  | ABS | SIGN | SQRT | POWER | EXP | LN | LOG | LOG10 | MOD | FACT | FACTDOUBLE
  | SIN | COS | TAN | ASIN | ACOS | ATAN | ATAN2 | COSH | ASINH | ACOSH | DEGREES | RADIANS | PI
  | ROUND | ROUNDUP | ROUNDDOWN | TRUNC | INT | EVEN | CEILING | FLOOR
  deriving DecidableEq, Repr, Inhabited

def isInt (q : Rat) : Bool := q.den == 1

/-- `true`: the arguments lie outside the function's mathematical domain, the result must be an
    Excel error value.  (Results that leave the double range are a separate matter: see the
    correspondence's ASSUMPTIONS.) -/
def outside : Fn → List Rat → Bool
  | .SQRT, [x] => x < 0
  | .LN, [x] => x ≤ 0
  | .LOG10, [x] => x ≤ 0
  | .LOG, [x, b] => x ≤ 0 || b ≤ 0 || b == 1
  | .ASIN, [x] => x < -1 || 1 < x
  | .ACOS, [x] => x < -1 || 1 < x
  | .ACOSH, [x] => x < 1
  | .MOD, [_, d] => d == 0
  | .FACT, [x] => x < 0
  | .FACTDOUBLE, [x] => x < 0
  | .POWER, [x, p] => (x == 0 && p < 0) || (x < 0 && !isInt p)
  | .CEILING, [x, s] => s < 0 && 0 < x
  | .FLOOR, [x, s] => (s < 0 && 0 < x) || (s == 0 && x != 0)
  | _, _ => false

end XlVerif.Spec.C16
