/-
  Reference semantics for C17, written from the property statement: 1-based positions, counts
  clipped at the end of the text, a count of 0 gives the empty text, positions below 1 or negative
  counts give an error.  Does not import the model or the generated tables.
-/
import XlVerif.Base
namespace XlVerif.Spec.C17
open XlVerif

/-- `none` = an error value (the statement does not say which code). -/
def left (s : List Char) (n : Int) : Option (List Char) :=
  if n < 0 then none else some (s.take n.toNat)

def right (s : List Char) (n : Int) : Option (List Char) :=
  if n < 0 then none else some (s.drop (s.length - n.toNat))

def mid (s : List Char) (p k : Int) : Option (List Char) :=
  if p < 1 ∨ k < 0 then none else some ((s.drop (p.toNat - 1)).take k.toNat)

/-- `t` occurs in `s` at 1-based position `p`. -/
def occursAt (t s : List Char) (p : Nat) : Prop :=
  1 ≤ p ∧ p - 1 ≤ s.length ∧ t <+: s.drop (p - 1)

instance (t s : List Char) (p : Nat) : Decidable (occursAt t s p) := by
  unfold occursAt; infer_instance

/-- first position `≥ p` at which `t` occurs in `s` (positions `1 … len+1`). -/
def find (t s : List Char) (p : Int) : Option Nat :=
  if p < 1 then none else
    (List.range (s.length + 2)).find? fun j => decide (p.toNat ≤ j ∧ occursAt t s j)

def replace (s : List Char) (p k : Int) (t : List Char) : Option (List Char) :=
  if p < 1 ∨ k < 0 then none else
    some (s.take (p.toNat - 1) ++ t ++ s.drop (p.toNat - 1 + k.toNat))

/-- words of a text: maximal runs of non-blank characters. -/
def words : List Char → List (List Char)
  | [] => []
  | c :: s =>
    if c = ' ' then words s
    else match s with
      | [] => [[c]]
      | d :: _ => if d = ' ' then [c] :: words s
                  else match words s with
                    | [] => [[c]]
                    | w :: ws => (c :: w) :: ws

end XlVerif.Spec.C17
