/-
  Reference semantics for C18, written from the property statement: Excel's 1900 date system over the
  Gregorian calendar.  Does not import the model or the generated tables.

  The calendar is given twice: *definitionally* (leap years, month lengths, the day after a date,
  the three anchor serials of the statement) and as a closed form (`ordinal`, `serialOf`).
  `Props/C18.lean` proves that the closed form satisfies the definitional description: the anchors,
  `serialOf (nextDay c) = serialOf c + 1`, strict monotonicity and surjectivity.
-/
import XlVerif.Base
namespace XlVerif.Spec.C18

structure Date where
  y : Int
  m : Int
  d : Int
  deriving DecidableEq, Repr, Inhabited

/-- Gregorian leap year -/
abbrev Leap (y : Int) : Prop := y % 4 = 0 ∧ (y % 100 ≠ 0 ∨ y % 400 = 0)

def daysInMonth (y m : Int) : Int :=
  if m = 2 then (if Leap y then 29 else 28)
  else if m = 4 ∨ m = 6 ∨ m = 9 ∨ m = 11 then 30 else 31

/-- a date of the calendar -/
abbrev Date.Valid (c : Date) : Prop := 1 ≤ c.m ∧ c.m ≤ 12 ∧ 1 ≤ c.d ∧ c.d ≤ daysInMonth c.y c.m

/-- calendar order -/
abbrev Date.lt (a b : Date) : Prop :=
  a.y < b.y ∨ (a.y = b.y ∧ (a.m < b.m ∨ (a.m = b.m ∧ a.d < b.d)))

/-- the day after a date -/
def nextDay (c : Date) : Date :=
  if c.d < daysInMonth c.y c.m then ⟨c.y, c.m, c.d + 1⟩
  else if c.m < 12 then ⟨c.y, c.m + 1, 1⟩
  else ⟨c.y + 1, 1, 1⟩

/-- days in the years 1 … y-1 -/
def daysBeforeYear (y : Int) : Int := 365 * (y - 1) + (y - 1) / 4 - (y - 1) / 100 + (y - 1) / 400

/-- days of a common year before month m -/
def cumDays (m : Int) : Int :=
  if m ≤ 1 then 0 else if m = 2 then 31 else if m = 3 then 59 else if m = 4 then 90
  else if m = 5 then 120 else if m = 6 then 151 else if m = 7 then 181 else if m = 8 then 212
  else if m = 9 then 243 else if m = 10 then 273 else if m = 11 then 304 else 334

/-- day number of a date, 0001-01-01 = 1 -/
def ordinal (c : Date) : Int :=
  daysBeforeYear c.y + cumDays c.m + (if c.m > 2 ∧ Leap c.y then 1 else 0) + c.d

/-- the serial of a day number: serial 1 = 1900-01-01 (ordinal 693596); from 1900-03-01 on one more,
    because Excel counts a 29 February 1900 (serial 60) that the calendar does not have -/
def serialOfOrdinal (o : Int) : Int :=
  let k := o - 693595
  if k ≥ 60 then k + 1 else k

/-- Excel 1900-system serial of a calendar date -/
def serialOf (c : Date) : Int := serialOfOrdinal (ordinal c)

/-- `c` is the calendar date of the whole serial `n` -/
abbrev IsDateOf (n : Int) (c : Date) : Prop := c.Valid ∧ serialOf c = n

/-- the last serial of the date system: 9999-12-31 -/
def maxSerial : Int := 2958465

-- ---------------------------------------------------------------- fast inverse (certified per call)

/-- search upward for the year containing ordinal `o` (the guess never overshoots) -/
def yearUp (o : Int) : Nat → Int → Int
  | 0, y => y
  | fuel + 1, y => if daysBeforeYear (y + 1) < o then yearUp o fuel (y + 1) else y

def monthUp (o : Int) (y : Int) : Nat → Int → Int
  | 0, m => m
  | fuel + 1, m =>
    if m < 12 ∧ ordinal ⟨y, m + 1, 1⟩ ≤ o then monthUp o y fuel (m + 1) else m

/-- candidate date of an ordinal (search on the closed form) -/
def dateOfOrdinal (o : Int) : Date :=
  let y := yearUp o 40 ((o - 1) / 366 + 1)
  let m := monthUp o y 12 1
  ⟨y, m, o - ordinal ⟨y, m, 1⟩ + 1⟩

/-- the calendar date of a whole serial (`none` for serial 60 and when the certificate fails):
    the candidate is returned only if it is a valid date whose serial is `n` — by
    `serialOf_injective` it is then *the* date of `n`. -/
def dateOf (n : Int) : Option Date :=
  let o := if n > 60 then n - 1 + 693595 else n + 693595
  let c := dateOfOrdinal o
  if IsDateOf n c then some c else none

-- ---------------------------------------------------------------- weekday, ISO week

/-- ISO weekday, Monday = 1 … Sunday = 7 (0001-01-01 was a Monday) -/
def isoWeekday (c : Date) : Int := (ordinal c - 1) % 7 + 1

/-- WEEKDAY return types as rotations of the ISO weekday: types 1 and 17 count from Sunday = 1,
    2 and 11 from Monday = 1, 3 from Monday = 0, 12 … 16 from Tuesday … Saturday = 1;
    every other return type is an error -/
def weekdayNum (rt : Int) (iso : Int) : Option Int :=
  if rt = 1 then some (iso % 7 + 1)
  else if rt = 2 then some iso
  else if rt = 3 then some (iso - 1)
  else if 11 ≤ rt ∧ rt ≤ 17 then some ((iso - (rt - 10)) % 7 + 1)
  else none

/-- ISO 8601 week number: the week (Monday … Sunday) belongs to the year that contains its Thursday,
    and is numbered by the position of that Thursday among the Thursdays of its year -/
def isoWeek (c : Date) : Int :=
  let o := ordinal c
  let th := o + 4 - isoWeekday c
  let yT := if th < ordinal ⟨c.y, 1, 1⟩ then c.y - 1
            else if th ≥ ordinal ⟨c.y + 1, 1, 1⟩ then c.y + 1 else c.y
  (th - ordinal ⟨yT, 1, 1⟩) / 7 + 1

-- ---------------------------------------------------------------- DATE, EDATE, EOMONTH

/-- the first of the month `k` whole months after the first of `c`'s month -/
def monthShift (y m k : Int) : Int × Int :=
  let idx := y * 12 + (m - 1) + k
  (idx / 12, idx % 12 + 1)

/-- `DATE(y, m, d)` for whole arguments: years below 1900 count from 1900; months and days outside
    their ranges carry into the next units; `none` = an error value (year outside 0 … 9999 or a
    result outside 1900-01-01 … 9999-12-31) -/
def date (y m d : Int) : Option Int :=
  if y < 0 ∨ y > 9999 then none else
  let y' := if y < 1900 then y + 1900 else y
  let ym := monthShift y' 1 (m - 1)
  let s := serialOfOrdinal (ordinal ⟨ym.1, ym.2, 1⟩ + (d - 1))
  if s < 1 ∨ s > maxSerial then none else some s

/-- `c` moved by `k` whole months, the day clipped to the end of the target month -/
def addMonths (c : Date) (k : Int) : Date :=
  let ym := monthShift c.y c.m k
  ⟨ym.1, ym.2, min c.d (daysInMonth ym.1 ym.2)⟩

def endOfMonth (c : Date) : Date := ⟨c.y, c.m, daysInMonth c.y c.m⟩

/-- `none` = an error value: the result lies outside 1900-01-01 … 9999-12-31 -/
def edate (c : Date) (k : Int) : Option Int :=
  let s := serialOf (addMonths c k)
  if s < 1 ∨ s > maxSerial then none else some s

def eomonth (c : Date) (k : Int) : Option Int :=
  let s := serialOf (endOfMonth (addMonths c k))
  if s < 1 ∨ s > maxSerial then none else some s

-- ---------------------------------------------------------------- DATEDIF, YEARFRAC

/-- complete months from `a` to `b` (a ≤ b): a month is complete when the day of the month of `a`
    is reached again -/
def completeMonths (a b : Date) : Int :=
  (b.y - a.y) * 12 + (b.m - a.m) - (if b.d < a.d then 1 else 0)

/-- complete years: the anniversary (month, day) of `a` has been reached `k` times -/
def completeYears (a b : Date) : Int :=
  (b.y - a.y) - (if b.m < a.m ∨ (b.m = a.m ∧ b.d < a.d) then 1 else 0)

/-- the 30/360 day count where the US and the European convention coincide
    (neither day of the month is 29 … 31) -/
def days360 (a b : Date) : Int := 360 * (b.y - a.y) + 30 * (b.m - a.m) + (b.d - a.d)

/-- the dates on which the 30/360 conventions agree with the plain count -/
abbrev Plain360 (c : Date) : Prop := c.d ≤ 28 ∧ ¬ (c.m = 2 ∧ c.d = 28 ∧ ¬ Leap c.y)

/-- Excel's actual/actual (basis 1): the days divided by the length of the year when both dates lie
    at most one year apart (366 when the year of the start is leap, for a same-year pair, or when a
    29 February lies in the period), and by the mean year length over the years touched otherwise -/
def yearfrac1 (a b : Date) : Rat :=
  let days := ordinal b - ordinal a
  if days = 0 then 0 else
  let within1 := a.y = b.y ∨ (b.y = a.y + 1 ∧ (a.m > b.m ∨ (a.m = b.m ∧ a.d ≥ b.d)))
  if within1 then
    let leapDayIn : Bool :=
      if a.y = b.y then decide (Leap a.y)
      else (decide (Leap a.y) && decide (ordinal a ≤ ordinal ⟨a.y, 2, 29⟩))
        || (decide (Leap b.y) && decide (ordinal b ≥ ordinal ⟨b.y, 2, 29⟩))
    (days : Rat) / (if leapDayIn then 366 else 365)
  else
    let nyears := b.y - a.y + 1
    let total := daysBeforeYear (b.y + 1) - daysBeforeYear a.y
    (days : Rat) * (nyears : Rat) / (total : Rat)

/-- YEARFRAC for a ≤ b on whole days; `none` = the basis is not one of 0 … 4 -/
def yearfrac (a b : Date) (basis : Int) : Option Rat :=
  if basis = 0 ∨ basis = 4 then some ((days360 a b : Rat) / 360)
  else if basis = 1 then some (yearfrac1 a b)
  else if basis = 2 then some ((ordinal b - ordinal a : Int) / 360)
  else if basis = 3 then some ((ordinal b - ordinal a : Int) / 365)
  else none

end XlVerif.Spec.C18
