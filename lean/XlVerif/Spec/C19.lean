/-
  Reference semantics for C19, written from the property statement only: ten digits, two's
  complement, in base 2, 8 and 16.  Does not import the model or the generated tables.

  * window of a base b:  −b¹⁰/2 ≤ n < b¹⁰/2   (−512…511, −2²⁹…2²⁹−1, −2³⁹…2³⁹−1);
  * reference digits of n: the ten-digit representation of n mod b¹⁰ (digit i is
    ⌊v / b^(9−i)⌋ mod b, upper case); a non-negative n is written without leading zeros (at least
    one digit) and then left-padded with zeros to `places`; a negative n keeps its ten digits;
  * a digit string (1…10 digits of the base; hexadecimal letters in either case) denotes
    v = Σ dᵢ·b^(len−1−i), read as v − b¹⁰ when v ≥ b¹⁰/2;
  * a number given where a digit string is expected is read by its decimal digits
    (BIN2DEC(101) = 5); a fractional one is not a digit string;
  * outside the window / invalid digits / more than ten digits / fractional digit string /
    places outside 1…10 or too small  →  #NUM!;   a boolean argument  →  #VALUE!.
-/
import XlVerif.Base
namespace XlVerif.Spec.C19
open XlVerif

inductive Radix | bin | oct | hex
  deriving DecidableEq, Repr

def Radix.b : Radix → Nat
  | .bin => 2 | .oct => 8 | .hex => 16

/-- b¹⁰: the number of ten-digit strings. -/
def modulus (r : Radix) : Nat := r.b ^ 10

/-- half of it: the window is `−half ≤ n < half`. -/
def half (r : Radix) : Nat := modulus r / 2

def inWindow (r : Radix) (n : Int) : Prop := -(half r : Int) ≤ n ∧ n < (half r : Int)

instance (r : Radix) (n : Int) : Decidable (inWindow r n) := by unfold inWindow; infer_instance

def alphabet : List Char :=
  ['0', '1', '2', '3', '4', '5', '6', '7', '8', '9', 'A', 'B', 'C', 'D', 'E', 'F']

/-- the (upper-case) character of a digit value. -/
def digitCh (d : Nat) : Char := alphabet.getD d '?'

/-- the `k`-digit representation of `v` in base `b`: last digit `v mod b`, before it the
    `(k−1)`-digit representation of `⌊v / b⌋`. -/
def fixed (b : Nat) : Nat → Nat → List Char
  | 0, _ => []
  | k + 1, v => fixed b k (v / b) ++ [digitCh (v % b)]

/-- drop leading zeros, keep at least one digit. -/
def stripZeros (s : List Char) : List Char :=
  let t := s.dropWhile (· = '0')
  if t.isEmpty then ['0'] else t

/-- the reference digits of an integer of the window. -/
def refDigits (r : Radix) (n : Int) : List Char :=
  if n < 0 then fixed r.b 10 (n + modulus r).toNat else stripZeros (fixed r.b 10 n.toNat)

/-- the characters that are digits of a base. -/
def validDigits : Radix → List Char
  | .bin => ['0', '1']
  | .oct => ['0', '1', '2', '3', '4', '5', '6', '7']
  | .hex => ['0', '1', '2', '3', '4', '5', '6', '7', '8', '9', 'A', 'B', 'C', 'D', 'E', 'F',
             'a', 'b', 'c', 'd', 'e', 'f']

def upperHex (c : Char) : Char :=
  if c = 'a' then 'A' else if c = 'b' then 'B' else if c = 'c' then 'C'
  else if c = 'd' then 'D' else if c = 'e' then 'E' else if c = 'f' then 'F' else c

/-- value of a valid digit. -/
def digitValue (c : Char) : Nat := alphabet.idxOf (upperHex c)

/-- Σ dᵢ·b^(len−1−i). -/
def positional (b : Nat) : List Char → Nat
  | [] => 0
  | c :: s => digitValue c * b ^ s.length + positional b s

/-- the integer a digit string denotes (`none`: not 1…10 digits of the base). -/
def decode (r : Radix) (s : List Char) : Option Int :=
  if s.length = 0 ∨ s.length > 10 then none
  else if ∀ c ∈ s, c ∈ validDigits r then
    let v := positional r.b s
    some (if v ≥ half r then (v : Int) - modulus r else v)
  else none

/-- result text for an integer of the window and an (already range-checked) places value;
    `none` = `places` too small. -/
def encode (r : Radix) (n : Int) (places : Option Nat) : Option (List Char) :=
  let digits := refDigits r n
  if n < 0 then some digits else
    match places with
    | none => some digits
    | some p => if digits.length > p then none else some (List.replicate (p - digits.length) '0' ++ digits)

-- ---------------------------------------------------------------- the twelve functions

/-- a side of a conversion: decimal number, or digit string of a radix -/
inductive Side | dec | rad (r : Radix)
  deriving DecidableEq, Repr

/-- the twelve functions by name: origin, destination -/
def functions : List (List Char × Side × Side) := [
  (['D', 'E', 'C', '2', 'B', 'I', 'N'], .dec, .rad .bin),
  (['D', 'E', 'C', '2', 'O', 'C', 'T'], .dec, .rad .oct),
  (['D', 'E', 'C', '2', 'H', 'E', 'X'], .dec, .rad .hex),
  (['B', 'I', 'N', '2', 'D', 'E', 'C'], .rad .bin, .dec),
  (['O', 'C', 'T', '2', 'D', 'E', 'C'], .rad .oct, .dec),
  (['H', 'E', 'X', '2', 'D', 'E', 'C'], .rad .hex, .dec),
  (['B', 'I', 'N', '2', 'O', 'C', 'T'], .rad .bin, .rad .oct),
  (['B', 'I', 'N', '2', 'H', 'E', 'X'], .rad .bin, .rad .hex),
  (['O', 'C', 'T', '2', 'B', 'I', 'N'], .rad .oct, .rad .bin),
  (['O', 'C', 'T', '2', 'H', 'E', 'X'], .rad .oct, .rad .hex),
  (['H', 'E', 'X', '2', 'B', 'I', 'N'], .rad .hex, .rad .bin),
  (['H', 'E', 'X', '2', 'O', 'C', 'T'], .rad .hex, .rad .oct)]

def sides (name : List Char) : Option (Side × Side) :=
  (functions.find? fun f => f.1 = name).map fun f => f.2

/-- what the statement demands of a call -/
inductive Want
  | val (v : S)          -- exactly this value
  | err (c : Code)       -- exactly this error value
  | anyErr               -- #NUM! and #VALUE! both apply (one per argument): either is accepted
  | silent               -- the statement does not speak about this input
  deriving DecidableEq, Repr

/-- classification of one argument -/
inductive Cls (α : Type) | ok (a : α) | err (c : Code) | silent

/-- an integer-valued number (given as int or as float) -/
def asInteger : Num → Option Int
  | .int z => some z
  | .flt q => if q.den = 1 then some q.num else none

/-- the `number` argument: the integer it denotes. -/
def classNumber (origin : Side) (number : S) : Cls Int :=
  match number with
  | .bool _ => .err .value
  | .num x =>
    (match origin with
     | .dec => match asInteger x with
       | some z => .ok z
       | none => .silent                   -- DEC2BIN(3.7): not an integer, statement silent
     | .rad r => match asInteger x with
       | none => .err .num                 -- fractional digit string
       | some z =>
         if z < 0 then .err .num           -- the sign is not a digit
         else if z ≥ 10 ^ 10 then .err .num   -- more than ten digits
         else match decode r (stripZeros (fixed 10 10 z.toNat)) with
           | some v => .ok v
           | none => .err .num)
  | .text s =>
    (match origin with
     | .dec => .silent
     | .rad r =>
       if s.isEmpty then .silent
       else match decode r s with
         | some v => .ok v
         | none => .err .num)
  | _ => .silent

/-- the `places` argument (`none` = omitted) -/
def classPlaces (takesPlaces : Bool) (places : Option S) : Cls (Option Nat) :=
  match places with
  | none => .ok none
  | some p =>
    if ¬ takesPlaces then .silent else
    match p with
    | .bool _ => .err .value
    | .num x => (match asInteger x with
      | some z => if 1 ≤ z ∧ z ≤ 10 then .ok (some z.toNat) else .err .num
      | none => .silent)
    | _ => .silent

/-- what the statement demands of a conversion from `origin` to `destination` -/
def wantSides (origin destination : Side) (number : S) (places : Option S) : Want :=
  let takesPlaces := decide (destination ≠ .dec)
  match classNumber origin number with
  | .silent => .silent
  | .err c =>
    (match classPlaces takesPlaces places with
     | .silent => .silent
     | .err c' => if c = c' then .err c else .anyErr
     | .ok _ => .err c)
  | .ok n =>
    (match classPlaces takesPlaces places with
     | .silent => .silent
     | .err c =>
       (match destination with
        | .dec => .err c
        | .rad r => if inWindow r n then .err c else if c = .num then .err .num else .anyErr)
     | .ok p =>
       (match destination with
        | .dec => .val (.num (.int n))
        | .rad r =>
          if ¬ inWindow r n then .err .num           -- outside the window of the destination
          else match encode r n p with
            | some t => .val (.text t)
            | none => .err .num))                    -- places too small

def want (name : List Char) (number : S) (places : Option S) : Want :=
  match sides name with
  | none => .silent
  | some (origin, destination) => wantSides origin destination number places

end XlVerif.Spec.C19
