/-
  Reference semantics for C20, written from the property statement (defining equations, not the
  library's closed forms).  Does not import the model or the generated tables.  Numbers are `Rat`.
-/
import XlVerif.Base
namespace XlVerif.Spec.C20

/-- `Σ_i c_i / (1+r)^(k+i)`: present value of a stream whose first flow is discounted `k` periods. -/
def pvFrom (r : Rat) : Nat → List Rat → Rat
  | _, [] => 0
  | k, c :: cs => c / (1 + r) ^ k + pvFrom r (k + 1) cs

/-- **NPV(r, c₁ … cₙ) = Σ cᵢ / (1+r)^i**, `i` from 1. -/
def npv (r : Rat) (cs : List Rat) : Rat := pvFrom r 1 cs

/-- `Σ cᵢ / (1+r)^i`, `i` from 0: the function whose root the internal rate of return is. -/
def pvSum (r : Rat) (cs : List Rat) : Rat := pvFrom r 0 cs

/-- The defining equation of an annuity: the balance of an account that starts with `b`, earns `r`
    per period and receives the payment `pmt` at the end (`atBegin = false`) or at the beginning
    (`atBegin = true`) of each of `n` periods. -/
def balance (r pmt : Rat) (atBegin : Bool) : Nat → Rat → Rat
  | 0, b => b
  | n + 1, b => balance r pmt atBegin n (if atBegin then (b + pmt) * (1 + r) else b * (1 + r) + pmt)

/-- `pv`, `pmt`, `fv` belong together iff the final balance and the future value cancel. -/
def Annuity (r : Rat) (n : Nat) (pv pmt fv : Rat) (atBegin : Bool) : Prop :=
  balance r pmt atBegin n pv + fv = 0

/-- the present value solving the annuity equation (the balance is affine in the start value):
    computed from the recursion alone, without a closed form. -/
def solvePV (r : Rat) (n : Nat) (pmt fv : Rat) (atBegin : Bool) : Rat :=
  -(balance r pmt atBegin n 0 + fv) / balance r 0 atBegin n 1

/-- the payment solving the annuity equation (the balance is affine in the payment). -/
def solvePMT (r : Rat) (n : Nat) (pv fv : Rat) (atBegin : Bool) : Rat :=
  -(balance r 0 atBegin n pv + fv) / balance r 1 atBegin n 0

/-- the annuity closed forms of the statement -/
def pvClosed (r : Rat) (n : Nat) (pmt fv when : Rat) : Rat :=
  if r = 0 then -(fv + pmt * n) else -(fv + pmt * (1 + r * when) * ((1 + r) ^ n - 1) / r) / (1 + r) ^ n

def pmtClosed (r : Rat) (n : Nat) (pv fv when : Rat) : Rat :=
  if r = 0 then -(fv + pv) / n else -(fv + pv * (1 + r) ^ n) * r / ((1 + r * when) * ((1 + r) ^ n - 1))

/-- SLN = (cost − salvage) / life. -/
def sln (cost salvage life : Rat) : Rat := (cost - salvage) / life

/-- **XNPV(r, v, d) = Σ vᵢ / (1+r)^((dᵢ − d₁)/365)**; `W t` stands for `(1+r)^t`. -/
def xnpvFrom (W : Rat → Rat) (d1 : Rat) : List Rat → List Rat → Rat
  | v :: vs, d :: ds => v / W ((d - d1) / 365) + xnpvFrom W d1 vs ds
  | _, _ => 0

def xnpv (W : Rat → Rat) (vs ds : List Rat) : Rat :=
  match ds with
  | [] => 0
  | d1 :: _ => xnpvFrom W d1 vs ds

/-- the cash flows the IRR/XIRR clause speaks about: an initial outlay followed by non-negative
    returns whose total exceeds it. -/
def OutlayThenReturns (cs : List Rat) : Prop :=
  match cs with
  | [] => False
  | c0 :: rest => c0 < 0 ∧ (∀ c ∈ rest, 0 ≤ c) ∧ 0 < c0 + rest.sum

instance (cs : List Rat) : Decidable (OutlayThenReturns cs) := by
  unfold OutlayThenReturns; split <;> infer_instance

end XlVerif.Spec.C20
