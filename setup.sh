#!/bin/bash
# Build the framework offline from files on disk: regenerate Gen/*.lean from /repo, build models,
# driver and every property's proofs.
set -e
cd "$(dirname "$0")"
/venv/bin/python harness/extract.py
cd lean
lake build XlVerif xldriver
for f in XlVerif/Props/C*.lean; do
  m=$(basename "$f" .lean)
  lake build "XlVerif.Props.$m" || echo "setup: proofs of $m do not build (the check will report it)"
done
