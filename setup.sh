#!/bin/bash
# Build the framework offline from files on disk: regenerate Gen/*.lean from /repo, build models,
# driver and every property's proofs.
set -e
cd "$(dirname "$0")"
/venv/bin/python harness/extract.py
cd lean
for i in $(seq -w 1 20); do
  lake build "XlVerif.Drv.C$i" "drv_c$i" || echo "setup: driver of C$i does not build (its check will report it)"
done
for f in XlVerif/Props/C*.lean; do
  m=$(basename "$f" .lean)
  lake build "XlVerif.Props.$m" || echo "setup: proofs of $m do not build (the check will report it)"
done
# the integrated pipeline model: its transport theorems are re-checked (soft) by the property checks
lake build XlVerif.Props.X01 XlVerif.Drv.X01 drv_x01 || echo "setup: the integrated model X01 does not build (the checks say so in their evidence)"
lake build xldriver || true
