namespace Cal
/-- Hinnant civil_from_days restricted to one era [0, 146097), returning (yoe, m, d) -/
def civil (doe : Nat) : Nat × Nat × Nat :=
  let yoe := (doe - doe/1460 + doe/36524 - doe/146096) / 365
  let doy := doe - (365*yoe + yoe/4 - yoe/100)
  let mp := (5*doy + 2)/153
  let d := doy - (153*mp+2)/5 + 1
  let m := if mp < 10 then mp+3 else mp-9
  (yoe, m, d)
def days (yoe m d : Nat) : Nat :=
  let mp := if m > 2 then m - 3 else m + 9
  let doy := (153*mp + 2)/5 + d - 1
  yoe*365 + yoe/4 - yoe/100 + doy
def chk (n : Nat) : Bool := let (y,m,d) := civil n; days y m d == n && 1 ≤ m && m ≤ 12 && 1 ≤ d && d ≤ 31
def allBelow (f : Nat → Bool) : Nat → Bool
  | 0 => true
  | n+1 => f n && allBelow f n
theorem era_ok : allBelow chk 146097 = true := by decide +kernel
#print axioms era_ok
end Cal
