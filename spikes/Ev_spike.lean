/-! Spike: state-threading evaluator model (writes computed values back into the model, like
    `Evaluator.evaluate`) and the theorem that stored values of formula cells never influence results. -/
namespace Ev

abbrev Addr := Nat
abbrev V := Int

inductive Ast
  | lit (v : V)
  | ref (a : Addr)
  | add (l r : Ast)
  | ite (c t e : Ast)        -- lazy IF
  | sum (rng : List Addr)    -- range aggregate: evaluates every member
deriving Repr

structure Cell where
  value : V                  -- constant or last computed value
  formula : Option Ast
deriving Repr

abbrev Model := Addr → Option Cell

def Model.get (m : Model) (a : Addr) : Option Cell := m a
def Model.setValue (m : Model) (a : Addr) (v : V) : Model :=
  fun b => if b = a then (m a).map (fun c => { c with value := v }) else m b

/-- `Evaluator.evaluate` with the cross-cell recursion bounded by `fuel` (Python: recursion limit).
    Returns the updated model (write-back of `cell.value`) and the value; `none` = out of fuel. -/
def evalAst (cellEval : Model → Addr → Option (Model × V)) : Model → Ast → Option (Model × V)
  | m, .lit v => some (m, v)
  | m, .ref a => cellEval m a
  | m, .add l r => do
      let (m1, x) ← evalAst cellEval m l
      let (m2, y) ← evalAst cellEval m1 r
      pure (m2, x + y)
  | m, .ite c t e => do
      let (m1, x) ← evalAst cellEval m c
      if x ≠ 0 then evalAst cellEval m1 t else evalAst cellEval m1 e
  | m, .sum rng => sumCells cellEval m rng 0
where
  sumCells (cellEval : Model → Addr → Option (Model × V)) : Model → List Addr → V → Option (Model × V)
    | m, [], acc => some (m, acc)
    | m, a :: as, acc => do
        let (m1, x) ← cellEval m a
        sumCells cellEval m1 as (acc + x)

def evalCell : Nat → Model → Addr → Option (Model × V)
  | 0, _, _ => none
  | fuel + 1, m, a =>
    match m.get a with
    | none => some (m, 0)                         -- blank
    | some c =>
      match c.formula with
      | none => some (m, c.value)                 -- constant: stored value is the result
      | some f => do
          let (m1, v) ← evalAst (evalCell fuel) m f
          pure (m1.setValue a v, v)               -- write-back

/-- the *inputs* of a model: stored values of formula cells erased -/
def erase (m : Model) : Model := fun a => (m a).map fun c => if c.formula.isSome then { c with value := 0 } else c

/-- pure reference evaluation: no state, reads only `erase m` -/
def pureAst (cellEval : Addr → Option V) : Ast → Option V
  | .lit v => some v
  | .ref a => cellEval a
  | .add l r => do let x ← pureAst cellEval l; let y ← pureAst cellEval r; pure (x + y)
  | .ite c t e => do let x ← pureAst cellEval c; if x ≠ 0 then pureAst cellEval t else pureAst cellEval e
  | .sum rng => pureSum cellEval rng 0
where
  pureSum (cellEval : Addr → Option V) : List Addr → V → Option V
    | [], acc => some acc
    | a :: as, acc => do let x ← cellEval a; pureSum cellEval as (acc + x)

def pureCell (im : Model) : Nat → Addr → Option V
  | 0, _ => none
  | fuel + 1, a =>
    match im a with
    | none => some 0
    | some c => match c.formula with
      | none => some c.value
      | some f => pureAst (pureCell im fuel) f

theorem erase_setValue (m : Model) (a : Addr) (v : V) (c : Cell) (hc : m a = some c) (hf : c.formula.isSome) :
    erase (m.setValue a v) = erase m := by
  funext b
  simp only [erase, Model.setValue]
  by_cases hb : b = a
  · subst hb; simp [hc, hf]
  · simp [hb]

/-- hypothesis on the cell evaluator used by `evalAst` -/
def Good (im : Model) (ce : Model → Addr → Option (Model × V)) (pc : Addr → Option V) : Prop :=
  ∀ m a m' v, erase m = im → ce m a = some (m', v) → erase m' = im ∧ pc a = some v

theorem sumCells_good (im : Model) (ce) (pc) (h : Good im ce pc) :
    ∀ (rng : List Addr) (m : Model) (acc : V) (m' : Model) (v : V), erase m = im →
      evalAst.sumCells ce m rng acc = some (m', v) → erase m' = im ∧ pureAst.pureSum pc rng acc = some v := by
  intro rng
  induction rng with
  | nil => intro m acc m' v hm he; simp [evalAst.sumCells] at he; obtain ⟨rfl, rfl⟩ := he; exact ⟨hm, rfl⟩
  | cons a as ih =>
    intro m acc m' v hm he
    simp only [evalAst.sumCells, bind, Option.bind] at he
    cases hce : ce m a with
    | none => simp [hce] at he
    | some r =>
      obtain ⟨m1, x⟩ := r
      simp only [hce] at he
      obtain ⟨h1, h2⟩ := h m a m1 x hm hce
      obtain ⟨h3, h4⟩ := ih m1 (acc + x) m' v h1 he
      exact ⟨h3, by simp [pureAst.pureSum, h2, h4, bind, Option.bind]⟩

theorem evalAst_good (im : Model) (ce) (pc) (h : Good im ce pc) :
    ∀ (f : Ast) (m m' : Model) (v : V), erase m = im → evalAst ce m f = some (m', v) →
      erase m' = im ∧ pureAst pc f = some v := by
  intro f
  induction f with
  | lit x => intro m m' v hm he; simp [evalAst] at he; obtain ⟨rfl, rfl⟩ := he; exact ⟨hm, rfl⟩
  | ref a => intro m m' v hm he; exact h m a m' v hm he
  | add l r ihl ihr =>
    intro m m' v hm he
    simp only [evalAst, bind, Option.bind] at he
    cases hl : evalAst ce m l with
    | none => simp [hl] at he
    | some r1 =>
      obtain ⟨m1, x⟩ := r1
      simp only [hl] at he
      obtain ⟨h1, h2⟩ := ihl m m1 x hm hl
      cases hr : evalAst ce m1 r with
      | none => simp [hr] at he
      | some r2 =>
        obtain ⟨m2, y⟩ := r2
        simp only [hr, pure, Option.some.injEq, Prod.mk.injEq] at he
        obtain ⟨rfl, rfl⟩ := he
        obtain ⟨h3, h4⟩ := ihr m1 m2 y h1 hr
        exact ⟨h3, by simp [pureAst, h2, h4, bind, Option.bind]⟩
  | ite c t e ihc iht ihe =>
    intro m m' v hm he
    simp only [evalAst, bind, Option.bind] at he
    cases hcv : evalAst ce m c with
    | none => simp [hcv] at he
    | some r1 =>
      obtain ⟨m1, x⟩ := r1
      simp only [hcv] at he
      obtain ⟨h1, h2⟩ := ihc m m1 x hm hcv
      by_cases hx : x ≠ 0
      · rw [if_pos hx] at he
        obtain ⟨h3, h4⟩ := iht m1 m' v h1 he
        exact ⟨h3, by simp only [pureAst, h2, bind, Option.bind]; rw [if_pos hx]; exact h4⟩
      · rw [if_neg hx] at he
        obtain ⟨h3, h4⟩ := ihe m1 m' v h1 he
        exact ⟨h3, by simp only [pureAst, h2, bind, Option.bind]; rw [if_neg hx]; exact h4⟩
  | sum rng => intro m m' v hm he; exact sumCells_good im ce pc h rng m 0 m' v hm he

/-- Stored values of formula cells never influence the result, and evaluation changes nothing but them. -/
theorem evalCell_pure (fuel : Nat) : ∀ (m : Model) (a : Addr) (m' : Model) (v : V),
    evalCell fuel m a = some (m', v) → erase m' = erase m ∧ pureCell (erase m) fuel a = some v := by
  induction fuel with
  | zero => intro m a m' v he; simp [evalCell] at he
  | succ n ih =>
    intro m a m' v he
    simp only [evalCell, Model.get] at he
    cases hc : m a with
    | none => simp [hc] at he; obtain ⟨rfl, rfl⟩ := he; exact ⟨rfl, by simp [pureCell, erase, hc]⟩
    | some c =>
      simp only [hc] at he
      cases hf : c.formula with
      | none =>
        simp [hf] at he; obtain ⟨rfl, rfl⟩ := he
        exact ⟨rfl, by simp [pureCell, erase, hc, hf]⟩
      | some f =>
        simp only [hf, bind, Option.bind] at he
        cases hev : evalAst (evalCell n) m f with
        | none => simp [hev] at he
        | some r =>
          obtain ⟨m1, x⟩ := r
          simp only [hev, pure, Option.some.injEq, Prod.mk.injEq] at he
          obtain ⟨rfl, rfl⟩ := he
          have hgood : Good (erase m) (evalCell n) (pureCell (erase m) n) := by
            intro m0 a0 m0' v0 hm0 he0
            obtain ⟨h1, h2⟩ := ih m0 a0 m0' v0 he0
            exact ⟨h1.trans hm0, by rw [← hm0]; exact h2⟩
          obtain ⟨h1, h2⟩ := evalAst_good (erase m) _ _ hgood f m m1 x rfl hev
          -- m1 a is still a formula cell
          have hm1a : ∃ c1, m1 a = some c1 ∧ c1.formula.isSome := by
            have : erase m1 a = erase m a := by rw [h1]
            simp only [erase, hc, Option.map_some] at this
            cases hm1 : m1 a with
            | none => simp [hm1] at this
            | some c1 =>
              refine ⟨c1, rfl, ?_⟩
              simp only [hm1, Option.map_some, Option.some.injEq] at this
              by_cases hc1 : c1.formula.isSome
              · exact hc1
              · simp only [hc1, hf] at this; simp at this
                subst this; simp [hf] at hc1
          obtain ⟨c1, hc1, hf1⟩ := hm1a
          refine ⟨(erase_setValue m1 a x c1 hc1 hf1).trans h1, ?_⟩
          simp [pureCell, erase, hc, hf]
          exact h2

#print axioms evalCell_pure
end Ev
