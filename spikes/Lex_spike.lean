/-! Spike: char-level model of the first pass of `ExcelParser.getTokens`
    (subset: plain atoms, operators, comparators, parentheses/function start, commas, blanks)
    and a continuation-style round-trip lemma. -/
namespace Lex

inductive TT | operand | func | subexpr | argument | opIn | wspace | unknown
deriving DecidableEq, Repr
inductive ST | none | start | stop | logical | union
deriving DecidableEq, Repr

structure Tok where
  v : List Char
  t : TT
  s : ST
deriving DecidableEq, Repr

structure St where
  toks : List Tok          -- emitted tokens, in order
  stack : List TT          -- tokenStack (types only)
  acc : List Char          -- `token` accumulator
deriving Repr

inductive Err | index | other
deriving DecidableEq, Repr

def isBlank (c : Char) : Bool := c == ' ' || c == '\n'
def isOp (c : Char) : Bool := "+-*/^&=><".toList.elem c

def St.emit (st : St) (t : Tok) : St := { st with toks := st.toks ++ [t] }
/-- `if len(token) > 0: tokens.add(token, OPERAND); token = ""` -/
def St.flush (st : St) : St :=
  if st.acc.isEmpty then st else { st with toks := st.toks ++ [⟨st.acc, .operand, .none⟩], acc := [] }

def St.pop (st : St) : Except Err St :=
  match st.stack with
  | [] => .error .index
  | t :: rest => .ok { st with toks := st.toks ++ [⟨[], t, .stop⟩], stack := rest }

/-- main loop over the remaining characters; structural on the list.
    `sp = true` models being inside the inner `while currentChar() in (" ", "\n") and not EOF()` loop -/
def lex (sp : Bool) (st : St) : List Char → Except Err St
  | [] => if sp then .error .index else .ok st.flush
  | c :: cs =>
    if sp && isBlank c then lex true st cs
    else if isBlank c then lex true ((st.flush).emit ⟨[], .wspace, .none⟩) cs
    else if c == '>' && cs.head? == some '=' then lex false ((st.flush).emit ⟨">=".toList, .opIn, .logical⟩) cs.tail
    else if c == '<' && cs.head? == some '=' then lex false ((st.flush).emit ⟨"<=".toList, .opIn, .logical⟩) cs.tail
    else if c == '<' && cs.head? == some '>' then lex false ((st.flush).emit ⟨"<>".toList, .opIn, .logical⟩) cs.tail
    else if isOp c then lex false ((st.flush).emit ⟨[c], .opIn, .none⟩) cs
    else if c == '(' then
      if st.acc.isEmpty then lex false { (st.emit ⟨[], .subexpr, .start⟩) with stack := .subexpr :: st.stack } cs
      else lex false { st with toks := st.toks ++ [⟨st.acc, .func, .start⟩], acc := [], stack := .func :: st.stack } cs
    else if c == ',' then
      let st := st.flush
      let st := if st.stack.head? == some .func then st.emit ⟨[','], .argument, .none⟩ else st.emit ⟨[','], .opIn, .union⟩
      if cs.isEmpty then .error .index else lex false st cs
    else if c == ')' then
      match (st.flush).pop with
      | .ok st => lex false st cs
      | .error e => .error e
    else lex false { st with acc := st.acc ++ [c] } cs
termination_by cs => cs.length
decreasing_by all_goals (simp only [List.length_cons, List.length_tail]; omega)

def run (s : String) : Except Err (List Tok) := (lex false ⟨[], [], []⟩ s.toList).map (·.toks)
#eval run "1+SUM( A1 ,2)>=3"
#eval run "1+2 "

/-- characters that are simply accumulated -/
def plain (c : Char) : Bool := !isBlank c && !isOp c && c != '(' && c != ')' && c != ','

theorem isOp_lt : isOp '<' = true := by decide
theorem isOp_gt : isOp '>' = true := by decide

theorem lex_plain_char (st : St) (c : Char) (cs : List Char) (h : plain c = true) :
    lex false st (c :: cs) = lex false { st with acc := st.acc ++ [c] } cs := by
  simp only [plain, Bool.and_eq_true, Bool.not_eq_true', bne_iff_ne, ne_eq] at h
  obtain ⟨⟨⟨⟨hb, ho⟩, h1⟩, h2⟩, h3⟩ := h
  have hgt : c ≠ '>' := by intro h; subst h; simp [isOp_gt] at ho
  have hlt : c ≠ '<' := by intro h; subst h; simp [isOp_lt] at ho
  rw [lex]
  simp [hb, ho, h1, h2, h3, hgt, hlt]

theorem lex_plain (w : List Char) (hw : ∀ c ∈ w, plain c = true) (st : St) (rest : List Char) :
    lex false st (w ++ rest) = lex false { st with acc := st.acc ++ w } rest := by
  induction w generalizing st with
  | nil => simp
  | cons c w ih =>
    rw [List.cons_append, lex_plain_char _ _ _ (hw c (by simp)), ih (fun d hd => hw d (by simp [hd]))]
    simp

theorem flush_flush (st : St) : st.flush.flush = st.flush := by
  unfold St.flush; split <;> simp_all

/-- a delimiter flushes the accumulator first, so pre-flushing does not change the result -/
def Delim : List Char → Prop
  | [] => True
  | c :: _ => isBlank c = true ∨ isOp c = true ∨ c = ')' ∨ c = ','

theorem lex_delim (st : St) (rest : List Char) (h : Delim rest) :
    lex false st rest = lex false st.flush rest := by
  cases rest with
  | nil => simp [lex, flush_flush]
  | cons c cs =>
    rw [lex, lex]
    simp only [Delim] at h
    simp only [Bool.false_and, Bool.false_eq_true, if_false, flush_flush]
    rcases h with h | h | h | h
    · simp [h]
    · by_cases hb : isBlank c = true
      · simp [hb]
      · simp only [hb, if_false, h, if_true]
    · subst h
      have : isBlank ')' = false := by decide
      have h2 : isOp ')' = false := by decide
      simp [this, h2, flush_flush]
    · subst h
      have : isBlank ',' = false := by decide
      have h2 : isOp ',' = false := by decide
      simp [this, h2, flush_flush]


/-! expression level -/
inductive E | atom (w : List Char) | bin (o : Char) (l r : E) | paren (e : E)

/-- blank runs placed before / after each operator and inside parentheses -/
def sp (n : Nat) : List Char := List.replicate n ' '

/-- rendering with a blank-count oracle `b` (same oracle threaded everywhere for brevity) -/
def E.chars (b : Nat) : E → List Char
  | .atom w => w
  | .bin o l r => l.chars b ++ sp b ++ [o] ++ sp b ++ r.chars b
  | .paren e => ['('] ++ sp b ++ e.chars b ++ sp b ++ [')']

def ws (b : Nat) : List Tok := if b = 0 then [] else [⟨[], .wspace, .none⟩]

def E.toks (b : Nat) : E → List Tok
  | .atom w => [⟨w, .operand, .none⟩]
  | .bin o l r => l.toks b ++ ws b ++ [⟨[o], .opIn, .none⟩] ++ ws b ++ r.toks b
  | .paren e => [⟨[], .subexpr, .start⟩] ++ ws b ++ e.toks b ++ ws b ++ [⟨[], .subexpr, .stop⟩]

def E.WF : E → Prop
  | .atom w => w ≠ [] ∧ ∀ c ∈ w, plain c = true
  | .bin o l r => isOp o = true ∧ o ≠ '<' ∧ o ≠ '>' ∧ l.WF ∧ r.WF
  | .paren e => e.WF

theorem isBlank_sp : isBlank ' ' = true := by decide

/-- blanks: a non-empty run followed by a non-blank char emits one wspace token -/
theorem lex_sp_true (n : Nat) (st : St) (c : Char) (cs : List Char) (hc : isBlank c = false) :
    lex true st (sp n ++ c :: cs) = lex false st (c :: cs) := by
  induction n with
  | zero => simp only [sp, List.replicate_zero, List.nil_append]; rw [lex, lex]; simp [hc]
  | succ n ih =>
    simp only [sp, List.replicate_succ, List.cons_append]
    rw [lex]; simp only [isBlank_sp, Bool.and_self, if_true]; exact ih

theorem lex_sp (b : Nat) (st : St) (c : Char) (cs : List Char) (hc : isBlank c = false) (hacc : st.acc = []) :
    lex false st (sp b ++ c :: cs) = lex false { st with toks := st.toks ++ ws b } (c :: cs) := by
  cases b with
  | zero => simp [sp, ws]
  | succ n =>
    simp only [sp, List.replicate_succ, List.cons_append]
    rw [lex]; simp only [Bool.false_and, Bool.false_eq_true, if_false, isBlank_sp, if_true]
    have := lex_sp_true n ((st.flush).emit ⟨[], .wspace, .none⟩) c cs hc
    simp only [sp] at this
    rw [this]
    simp [St.flush, St.emit, hacc, ws]

theorem E.chars_ne_nil (b : Nat) (e : E) (h : e.WF) : e.chars b ≠ [] := by
  cases e with
  | atom w => exact h.1
  | bin o l r => simp [E.chars]
  | paren e => simp [E.chars]

theorem E.head_nonblank (b : Nat) (e : E) (h : e.WF) :
    ∃ c cs, e.chars b = c :: cs ∧ isBlank c = false ∧ (c ≠ '=' ∧ c ≠ '>') := by
  induction e with
  | atom w =>
    obtain ⟨hne, hp⟩ := h
    cases w with
    | nil => exact absurd rfl hne
    | cons c cs =>
      refine ⟨c, cs, rfl, ?_, ?_⟩
      · have := hp c (by simp); simp [plain] at this; simp [this.1.1.1.1]
      · have := hp c (by simp); simp [plain] at this
        constructor <;> (intro hh; subst hh; have := this.1.1.1.2; revert this; decide)
  | bin o l r ihl _ =>
    obtain ⟨c, cs, h1, h2, h3⟩ := ihl h.2.2.2.1
    exact ⟨c, cs ++ (sp b ++ [o] ++ sp b ++ r.chars b), by simp [E.chars, h1], h2, h3⟩
  | paren e _ =>
    exact ⟨'(', _, by simp [E.chars]; rfl, by decide, by decide⟩

/-- main continuation-style lemma -/
theorem lex_expr (b : Nat) (e : E) (hwf : e.WF) : ∀ (st : St) (rest : List Char), st.acc = [] → Delim rest →
    lex false st (e.chars b ++ rest) = lex false { st with toks := st.toks ++ e.toks b } rest := by
  induction e with
  | atom w =>
    intro st rest hacc hd
    obtain ⟨hne, hp⟩ := hwf
    simp only [E.chars, E.toks]
    rw [lex_plain w hp, lex_delim _ _ hd]
    congr 1
    simp [St.flush, hacc, hne]
  | paren e ih =>
    intro st rest hacc hd
    obtain ⟨c, cs, hc1, hc2, _⟩ := E.head_nonblank b e hwf
    simp only [E.chars, E.toks, List.append_assoc, List.cons_append, List.nil_append]
    rw [lex]
    have h1 : isBlank '(' = false := by decide
    have h2 : isOp '(' = false := by decide
    simp only [Bool.false_and, Bool.false_eq_true, if_false, h1, h2, hacc]
    simp only [List.isEmpty_nil, if_true, show (('(' == '>') = false) by decide, show (('(' == '<') = false) by decide, Bool.false_and, Bool.false_eq_true, if_false, beq_self_eq_true]
    rw [hc1, List.cons_append, lex_sp b _ c _ hc2 (by simp [St.emit, hacc]), ← List.cons_append, ← hc1]
    rw [ih hwf _ _ (by simp [St.emit, hacc]) (by
      cases b with
      | zero => simp [sp, Delim]
      | succ n => simp [sp, List.replicate_succ, Delim, isBlank_sp])]
    rw [lex_sp b _ ')' _ (by decide) (by simp [St.emit, hacc])]
    rw [lex]
    simp [show isBlank ')' = false by decide, show isOp ')' = false by decide, St.flush, St.emit, hacc, St.pop]
  | bin o l r ihl ihr =>
    intro st rest hacc hd
    obtain ⟨ho, hlt, hgt, hl, hr⟩ := hwf
    obtain ⟨c, cs, hc1, hc2, hc3⟩ := E.head_nonblank b r hr
    have hob : isBlank o = false := by
      revert ho; unfold isOp isBlank; intro ho
      simp [List.elem] at ho
      rcases ho with h|h|h|h|h|h|h|h|h <;> subst h <;> decide
    simp only [E.chars, E.toks, List.append_assoc, List.cons_append, List.nil_append]
    rw [ihl hl _ _ hacc (by
      cases b with
      | zero => simp [sp, Delim, ho]
      | succ n => simp [sp, List.replicate_succ, Delim, isBlank_sp])]
    rw [lex_sp b _ o _ hob (by simp [hacc])]
    rw [lex]
    have hne1 : (o == '>') = false := by simp [hgt]
    have hne2 : (o == '<') = false := by simp [hlt]
    simp only [Bool.false_and, Bool.false_eq_true, if_false, hob, hne1, hne2, ho, if_true]
    rw [hc1, List.cons_append, lex_sp b _ c _ hc2 (by simp [St.emit, St.flush, hacc]), ← List.cons_append, ← hc1]
    rw [ihr hr _ _ (by simp [St.emit, St.flush, hacc]) hd]
    simp [St.flush, St.emit, hacc]

#print axioms lex_expr
end Lex
