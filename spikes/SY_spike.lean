namespace SY

inductive BinOp | pow | mul | div | add | sub | cat | eq | ne | lt | gt | le | ge
deriving DecidableEq, Repr

def BinOp.prec : BinOp → Nat
| .pow => 5 | .mul => 4 | .div => 4 | .add => 3 | .sub => 3 | .cat => 2 | _ => 1

inductive Tok | atom (n : Nat) | bin (o : BinOp) | neg | lp | rp
deriving DecidableEq, Repr

inductive Expr | atom (n : Nat) | neg (e : Expr) | bin (o : BinOp) (l r : Expr) | paren (e : Expr)
deriving Repr

inductive Rpn | atom (n : Nat) | bin (o : BinOp) | neg
deriving DecidableEq, Repr

inductive SItem | bin (o : BinOp) | neg | lp
deriving DecidableEq, Repr

def SItem.prec : SItem → Nat | .bin o => o.prec | .neg => 7 | .lp => 0
def SItem.isOp : SItem → Bool | .lp => false | _ => true
def SItem.toRpn : SItem → Rpn | .bin o => .bin o | .neg => .neg | .lp => .neg

/-- pop while top is an operator with precedence ≥ p (left-assoc incoming op) -/
def reduce (p : Nat) : List SItem → List Rpn → List SItem × List Rpn
| [], out => ([], out)
| s :: st, out => if s.isOp && decide (p ≤ s.prec) then reduce p st (out ++ [s.toRpn]) else (s :: st, out)

/-- pop while top is an operator with precedence > p (right-assoc incoming op) -/
def reduceR (p : Nat) : List SItem → List Rpn → List SItem × List Rpn
| [], out => ([], out)
| s :: st, out => if s.isOp && decide (p < s.prec) then reduceR p st (out ++ [s.toRpn]) else (s :: st, out)

/-- pop all operators down to (not including) the nearest lp -/
def drain : List SItem → List Rpn → List SItem × List Rpn
| [], out => ([], out)
| s :: st, out => if s.isOp then drain st (out ++ [s.toRpn]) else (s :: st, out)

structure St where
  stk : List SItem
  out : List Rpn
deriving Repr

def step (s : St) : Tok → Option St
| .atom n => some { s with out := s.out ++ [.atom n] }
| .bin o => let (st, out) := reduce o.prec s.stk s.out; some { stk := .bin o :: st, out := out }
| .neg => let (st, out) := reduceR 7 s.stk s.out; some { stk := .neg :: st, out := out }
| .lp => some { s with stk := .lp :: s.stk }
| .rp => match drain s.stk s.out with
  | (.lp :: st, out) => some { stk := st, out := out }
  | _ => none

def run : St → List Tok → Option St
| s, [] => some s
| s, t :: ts => match step s t with
  | some s' => run s' ts
  | none => none

def finish (s : St) : Option (List Rpn) :=
  match drain s.stk s.out with
  | ([], out) => some out
  | _ => none

def sy (ts : List Tok) : Option (List Rpn) := (run ⟨[], []⟩ ts).bind finish

-- Spec side
def Expr.level : Expr → Nat
| .atom _ => 9 | .paren _ => 9 | .neg _ => 7 | .bin o _ _ => o.prec

def wrap (b : Bool) (ts : List Tok) : List Tok := if b then [.lp] ++ ts ++ [.rp] else ts

def render : Expr → List Tok
| .atom n => [.atom n]
| .paren e => [.lp] ++ render e ++ [.rp]
| .neg e => [.neg] ++ wrap (decide (e.level < 7)) (render e)
| .bin o l r => wrap (decide (l.level < o.prec)) (render l) ++ [.bin o] ++ wrap (decide (r.level ≤ o.prec)) (render r)

def rpn : Expr → List Rpn
| .atom n => [.atom n]
| .paren e => rpn e
| .neg e => rpn e ++ [.neg]
| .bin o l r => rpn l ++ rpn r ++ [.bin o]

#eval sy (render (.bin .add (.atom 1) (.bin .mul (.atom 2) (.atom 3))))
#eval sy (render (.bin .mul (.bin .add (.atom 1) (.atom 2)) (.neg (.bin .pow (.atom 3) (.atom 2)))))

theorem run_append (s : St) (a b : List Tok) :
    run s (a ++ b) = (run s a).bind (fun s' => run s' b) := by
  induction a generalizing s with
  | nil => simp [run]
  | cons t ts ih =>
    simp only [List.cons_append, run]
    cases h : step s t with
    | none => simp
    | some s' => simpa using ih s'

/-- all items are operators with precedence ≥ p -/
def AllGe (p : Nat) (pend : List SItem) : Prop := ∀ x ∈ pend, x.isOp = true ∧ p ≤ x.prec

/-- flushing the pending list appends its rpn in order -/
def flushed (pend : List SItem) : List Rpn := pend.map SItem.toRpn

theorem reduce_pending (p : Nat) (pend st : List SItem) (out : List Rpn)
    (h : AllGe p pend) : reduce p (pend ++ st) out = reduce p st (out ++ flushed pend) := by
  induction pend generalizing out with
  | nil => simp [flushed]
  | cons x xs ih =>
    have hx := h x (by simp)
    have hxs : AllGe p xs := fun y hy => h y (by simp [hy])
    simp only [List.cons_append, reduce, hx.1, hx.2, decide_true, Bool.and_self, if_true]
    rw [ih _ hxs]; simp [flushed]

theorem drain_pending (pend st : List SItem) (out : List Rpn) (p : Nat)
    (h : AllGe p pend) : drain (pend ++ st) out = drain st (out ++ flushed pend) := by
  induction pend generalizing out with
  | nil => simp [flushed]
  | cons x xs ih =>
    have hx := h x (by simp)
    have hxs : AllGe p xs := fun y hy => h y (by simp [hy])
    simp only [List.cons_append, drain, hx.1, if_true]
    rw [ih _ hxs]; simp [flushed]

/-- context condition: the top of the stack does not capture an expression of level `l` -/
def Ok (l : Nat) : List SItem → Prop
| [] => True
| s :: _ => s.isOp = false ∨ s.prec < l ∨ (s = .neg ∧ 7 ≤ l)

theorem BinOp.prec_lt (o : BinOp) : o.prec < 7 := by cases o <;> simp [BinOp.prec]
theorem BinOp.prec_pos (o : BinOp) : 0 < o.prec := by cases o <;> simp [BinOp.prec]

theorem reduce_stop (p : Nat) (st : List SItem) (out : List Rpn) (h : Ok p st) (hp : p < 7):
    reduce p st out = (st, out) := by
  cases st with
  | nil => simp [reduce]
  | cons s st =>
    simp only [Ok] at h
    rcases h with h | h | ⟨_, h7⟩
    · simp [reduce, h]
    · have : ¬ (p ≤ s.prec) := by omega
      simp [reduce, this]
    · omega

theorem reduceR_stop (st : List SItem) (out : List Rpn) : reduceR 7 st out = (st, out) := by
  cases st with
  | nil => simp [reduceR]
  | cons s st =>
    have : ¬ (7 < s.prec) := by
      cases s with
      | bin o => have := o.prec_lt; simp [SItem.prec]; omega
      | neg => simp [SItem.prec]
      | lp => simp [SItem.prec]
    simp [reduceR, this]

theorem drain_lp (st : List SItem) (out : List Rpn) : drain (.lp :: st) out = (.lp :: st, out) := by
  simp [drain, SItem.isOp]

theorem AllGe.mono {p q : Nat} {l : List SItem} (h : AllGe p l) (hq : q ≤ p) : AllGe q l :=
  fun x hx => ⟨(h x hx).1, Nat.le_trans hq (h x hx).2⟩

/-- wrapped or sufficiently high-level expression: behaves like an expression of level ≥ l -/
theorem run_wrap (b : Bool) (e : Expr) (l : Nat) (st : List SItem) (out : List Rpn)
    (hb : b = false → l ≤ e.level)
    (ih : ∀ st out, Ok e.level st → ∃ pend out', run ⟨st, out⟩ (render e) = some ⟨pend ++ st, out'⟩ ∧
        AllGe e.level pend ∧ out' ++ flushed pend = out ++ rpn e)
    (hok : Ok l st) (hl : l ≤ 9):
    ∃ pend out', run ⟨st, out⟩ (wrap b (render e)) = some ⟨pend ++ st, out'⟩ ∧
        AllGe l pend ∧ out' ++ flushed pend = out ++ rpn e := by
  cases b with
  | false =>
    have hle := hb rfl
    have hok' : Ok e.level st := by
      cases st with
      | nil => trivial
      | cons s st =>
        simp only [Ok] at hok ⊢
        rcases hok with h | h | ⟨h, h7⟩
        · exact Or.inl h
        · exact Or.inr (Or.inl (by omega))
        · exact Or.inr (Or.inr ⟨h, by omega⟩)
    obtain ⟨pend, out', h1, h2, h3⟩ := ih st out hok'
    exact ⟨pend, out', by simpa [wrap] using h1, h2.mono hle, h3⟩
  | true =>
    have hok' : Ok e.level (.lp :: st) := Or.inl rfl
    obtain ⟨pend, out', h1, h2, h3⟩ := ih (.lp :: st) out hok'
    refine ⟨[], out ++ rpn e, ?_, by simp [AllGe], by simp [flushed]⟩
    simp only [wrap, if_true, List.append_assoc, run_append, run, step, Option.bind]
    simp only [List.cons_append, List.nil_append, run, step, run_append, h1, Option.bind]
    rw [drain_pending pend _ _ _ h2, drain_lp, h3]

theorem run_render (e : Expr) : ∀ (st : List SItem) (out : List Rpn), Ok e.level st →
    ∃ pend out', run ⟨st, out⟩ (render e) = some ⟨pend ++ st, out'⟩ ∧
      AllGe e.level pend ∧ out' ++ flushed pend = out ++ rpn e := by
  induction e with
  | atom n =>
    intro st out _
    exact ⟨[], out ++ [.atom n], by simp [render, run, step], by simp [AllGe], by simp [flushed, rpn]⟩
  | paren e ih =>
    intro st out hok
    have := run_wrap true e 9 st out (by intro h; cases h) ih (by
      cases st with
      | nil => trivial
      | cons s st =>
        simp only [Ok, Expr.level] at hok ⊢
        exact hok) (Nat.le_refl _)
    simpa [wrap, render, rpn, Expr.level] using this
  | neg e ih =>
    intro st out hok
    -- after pushing neg
    have hok' : Ok 7 (.neg :: st) := Or.inr (Or.inr ⟨rfl, Nat.le_refl _⟩)
    obtain ⟨pend, out', h1, h2, h3⟩ := run_wrap (decide (e.level < 7)) e 7 (.neg :: st) out
      (by intro h; simpa using h) ih hok' (by omega)
    refine ⟨pend ++ [.neg], out', ?_, ?_, ?_⟩
    · simp only [render, List.cons_append, List.nil_append, run, step, reduceR_stop]
      simpa using h1
    · intro x hx
      rcases List.mem_append.mp hx with hx | hx
      · exact h2 x hx
      · simp at hx; subst hx; simp [SItem.isOp, SItem.prec, Expr.level]
    · simp [flushed, rpn, SItem.toRpn] at h3 ⊢
      rw [← List.append_assoc, h3]; simp
  | bin o l r ihl ihr =>
    intro st out hok
    simp only [Expr.level] at hok
    have hokl : Ok o.prec st := hok
    obtain ⟨pl, out1, h1, h2, h3⟩ := run_wrap (decide (l.level < o.prec)) l o.prec st out
      (by intro h; simpa using h) ihl hokl (by have := o.prec_lt; omega)
    have hokr : Ok (o.prec + 1) (.bin o :: st) := Or.inr (Or.inl (by simp [SItem.prec]))
    obtain ⟨pr, out2, h4, h5, h6⟩ := run_wrap (decide (r.level ≤ o.prec)) r (o.prec + 1) (.bin o :: st) (out ++ rpn l)
      (by intro h; have : ¬ r.level ≤ o.prec := by simpa using h
          omega) ihr hokr (by have := o.prec_lt; omega)
    refine ⟨pr ++ [.bin o], out2, ?_, ?_, ?_⟩
    · simp only [render, List.append_assoc, run_append, h1, Option.bind, List.cons_append, List.nil_append, run, step]
      rw [reduce_pending _ _ _ _ h2, reduce_stop _ _ _ hokl o.prec_lt, h3]
      simpa using h4
    · intro x hx
      rcases List.mem_append.mp hx with hx | hx
      · exact ⟨(h5 x hx).1, by have := (h5 x hx).2; simp [Expr.level]; omega⟩
      · simp at hx; subst hx; simp [SItem.isOp, SItem.prec, Expr.level]
    · simp [flushed, rpn, SItem.toRpn] at h6 ⊢
      rw [← List.append_assoc, h6]; simp

theorem sy_render (e : Expr) : sy (render e) = some (rpn e) := by
  obtain ⟨pend, out', h1, h2, h3⟩ := run_render e [] [] trivial
  simp only [sy, h1, Option.bind, finish]
  rw [drain_pending pend [] out' _ h2]; simp [drain, h3]

#print axioms sy_render
end SY
